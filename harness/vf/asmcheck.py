"""Shared machinery of C11 (compiler) and C12 (decompiler): AsmMC.tla families + replay,
random abstract programs / byte strings recorded from the implementation and judged by TLC."""
from __future__ import annotations
import json, multiprocessing as mp, os, random, shutil, signal, sys
from .par import SafePool
from concurrent.futures import ThreadPoolExecutor
from . import tlc
from .common import Report, REPO
from .gen.progs import OP

CFG = '''SPECIFICATION Spec
CONSTANTS
  Family = "%s"
  Emit = TRUE
INVARIANT InvAsm
INVARIANT InvDis
INVARIANT EmitCase
INVARIANT TraceCheck
CHECK_DEADLOCK FALSE
'''
NAMES = {v: k for k, v in OP.items()}
SPECIAL_ALIASES = {'OP_READ_CACHE_SIZE': 'RCZ', 'OP_READ_CACHE_STACK': 'RCS', 'OP_ADD_INTS': 'ADD', 'OP_SUBTRACT_INTS': 'SUB',
                   'OP_EQUAL': 'EQ', 'OP_EQUAL_VERIFY': 'EQV', 'OP_CHECK_SIG': 'CS', 'OP_CHECK_SIG_VERIFY': 'CSV',
                   'OP_CHECK_MULTISIG': 'CMS', 'OP_GET_MESSAGE': 'MSG', 'OP_CONCAT': 'CAT', 'OP_TAPROOT': 'TR',
                   'OP_GET_VALUE': 'VAL', 'OP_CHECK_TEMPLATE': 'CT', 'OP_LESS_OR_EQUAL': 'LEQ', 'OP_DIV_INTS': 'DIV'}


def _impl():
    if REPO not in sys.path:
        sys.path.insert(0, REPO)
    import tapescript
    return tapescript


class _Timeout(BaseException):
    pass


def with_timeout(fn, seconds=3.0):
    def h(signum, frame):
        raise _Timeout()
    old = signal.signal(signal.SIGALRM, h)
    signal.setitimer(signal.ITIMER_REAL, seconds)
    try:
        return 'ok', fn()
    except _Timeout:
        return 'timeout', None
    except BaseException as e:
        if isinstance(e, (KeyboardInterrupt, SystemExit)):
            raise
        return 'error', f'{type(e).__name__}: {e}'
    finally:
        signal.setitimer(signal.ITIMER_REAL, 0)
        signal.signal(signal.SIGALRM, old)


# ------------------------------------------------------------------ rendering variants
def spell(tok: str, variant: int, rng: random.Random) -> str:
    """lexical variants of one token: op names and block keywords are re-spelled (prefix, alias,
    letter case); names of variables / macros, brackets and values are kept - except the case of a
    d / x value prefix in variant 5"""
    keyword = tok.startswith(('OP_', 'NOP', 'END_')) or tok in ('ELSE', 'EXCEPT')
    if not keyword:
        if variant == 5 and len(tok) > 1 and tok[0] == 'f' and tok[1:].lstrip('-').replace('.', '', 1).isdigit():
            return 'F' + tok[1:]
        if variant == 5 and len(tok) > 1 and tok[0] in 'dx' and (tok[1:].lstrip('-').isdigit() if tok[0] == 'd' else True) \
                and all(ch in '0123456789abcdef-' for ch in tok[1:]):
            return tok[0].upper() + tok[1:]
        return tok
    t = tok
    if variant in (2, 3, 4) and t.startswith('OP_'):
        if variant == 4 and t in SPECIAL_ALIASES:
            t = SPECIAL_ALIASES[t]
        else:
            t = t[3:]
    if variant in (1, 2):
        t = t.lower()
    elif variant == 3:
        t = ''.join(ch.upper() if rng.random() < 0.5 else ch.lower() for ch in t)
    return t


def render(toks: list, variant: int, rng: random.Random) -> str:
    out = []
    for t in toks:
        out.append(spell(t, variant, rng))
        out.append(rng.choice([' ', '\n', '\t', '  ', '\n    ']) if variant in (1, 3, 4) else ' ')
    return ''.join(out)


# ------------------------------------------------------------------ replay of AsmMC records
def _replay_asm(args):
    recs, seed = args
    ts = _impl()
    rng = random.Random(seed)
    out = []
    for i, r in enumerate(recs):
        res = {'bytes': None, 'rejected': 0, 'listing': None}
        for variant in range(6):
            src = render(r['toks'], variant, rng)
            st, val = with_timeout(lambda: ts.compile_script(src), 10)
            if st == 'timeout':
                res['bytes'] = f'compile_script did not terminate on {src!r}'
                break
            if st == 'error':
                res['rejected'] += 1
                continue
            if not r['ok']:
                res['bytes'] = f'variant {variant}: source {src!r} cannot be encoded but was assembled to {val.hex()}'
                break
            if list(val) != list(r['bytes']):
                res['bytes'] = f"variant {variant}: source {src!r} assembled to {val.hex()}, documented encoding {bytes(r['bytes']).hex()}"
                break
        if res['bytes'] is None and r['ok']:
            st, lines = with_timeout(lambda: ts.decompile_script(bytes(r['bytes'])), 5)
            if st != 'ok':
                res['listing'] = f"decompile_script({bytes(r['bytes']).hex()}): {st} {lines}"
            elif list(lines) != list(r['listing']):
                res['listing'] = f"listing of {bytes(r['bytes']).hex()}: {lines} instead of {r['listing']}"
            else:
                st, back = with_timeout(lambda: ts.compile_script('\n'.join(lines)), 5)
                if st != 'ok' or back != bytes(r['bytes']):
                    res['listing'] = f"compile(decompile({bytes(r['bytes']).hex()})) = {back.hex() if st == 'ok' else (st, back)}"
        out.append(res)
    return out


def _replay_dis(recs):
    ts = _impl()
    out = []
    for r in recs:
        b = bytes(r['b'])
        st, lines = with_timeout(lambda: ts.decompile_script(b), 3)
        d = None
        if st == 'timeout':
            d = f'decompile_script({b.hex()}) did not terminate'
        elif (st == 'ok') != bool(r['ok']):
            d = f"decompile_script({b.hex()}): {st} {lines if st != 'ok' else ''}; specification: {'listing' if r['ok'] else 'error'}"
        elif st == 'ok':
            if list(lines) != list(r['listing']):
                d = f"listing of {b.hex()}: {lines} instead of {r['listing']}"
            else:
                st2, back = with_timeout(lambda: ts.compile_script('\n'.join(lines)), 5)
                if st2 != 'ok' or back != b:
                    d = f"compile(decompile({b.hex()})) = {back.hex() if st2 == 'ok' else (st2, back)}"
        out.append(d)
    return out


def _replay_dis3(recs):
    """every 3-byte string with the given two-byte prefixes: terminates (one watchdog per prefix), decodes iff the
    specification says so, and compile(decompile(b)) = b"""
    ts = _impl()
    out = []
    for r in recs:
        a, b = r['a'], r['b']

        def sweep():
            bad = []
            for x in range(256):
                s3 = bytes([a, b, x])
                try:
                    lines = ts.decompile_script(s3)
                    ok = True
                except BaseException as e:
                    if isinstance(e, (KeyboardInterrupt, SystemExit, _Timeout)):
                        raise
                    ok = False
                if ok != bool(r['oks'][x]):
                    bad.append(f"decompile_script({s3.hex()}): {'listing' if ok else 'error'}; specification: {'listing' if r['oks'][x] else 'error'}")
                elif ok:
                    try:
                        back = ts.compile_script('\n'.join(lines))
                    except BaseException as e:
                        if isinstance(e, (KeyboardInterrupt, SystemExit, _Timeout)):
                            raise
                        back = f'{type(e).__name__}: {e}'
                    if back != s3:
                        bad.append(f'compile(decompile({s3.hex()})) = {back.hex() if isinstance(back, bytes) else back}')
            return bad
        st, val = with_timeout(sweep, 60)
        if st == 'timeout':
            out.append([f'decompile_script did not terminate on some string {bytes([a, b]).hex()}xx'])
        elif st != 'ok':
            out.append([f'sweep {bytes([a, b]).hex()}xx: {val}'])
        else:
            out.append(val)
    return out


def mc_dis3x(rep: Report):
    """C12 thorough: all 16,777,216 byte strings of length 3"""
    res = tlc.run_tlc('AsmMC', CFG % 'disasm3x', workers=16, timeout=6000, heap='12g')
    rep.add_tlc(res, 'mc:disasm3x')
    if res.violated:
        rep.violation(f'TLC: {res.violated} in AsmMC family disasm3x', {'kind': 'mc', 'trace': res.errtrace[:3000]})
        return
    recs = [r for r in res.records if isinstance(r, dict) and r.get('k') == 'dis3']
    if len(recs) != 65536:
        raise tlc.MachineryError(f'disasm3x: {len(recs)} prefixes instead of 65536')
    n = 14 * 16
    chunks = [recs[i::n] for i in range(n)]
    with SafePool(14) as pool:
        outs = pool.map(_replay_dis3, chunks)
    bad = 0
    for ci, out in enumerate(outs):
        for j, probs in enumerate(out):
            r = recs[ci + j * n]
            rep.case(f"dis3/{r['a']}/{r['b']}")
            rep.evals = getattr(rep, 'evals', 0)
            if probs:
                bad += len(probs)
                rep.violation(f'disasm3x: {probs[0][:500]}' + (f' (+{len(probs) - 1} more with this prefix)' if len(probs) > 1 else ''),
                              {'kind': 'replay', 'family': 'disasm3x', 'record': {'a': r['a'], 'b': r['b']}})
            else:
                rep.traces += 256
    rep.extra.setdefault('families', {})['disasm3x'] = {'strings': 256 * len(recs), 'mismatches': bad}


def mc_family(rep: Report, fam: str, which: str, seed: int = 0, timeout: int = 3000):
    """which: 'asm' (C11: compile side) or 'dis' (C12: listing side) decides which disagreements count"""
    res = tlc.run_tlc('AsmMC', CFG % fam, workers=8, timeout=timeout, heap='10g')
    rep.add_tlc(res, f'mc:{fam}')
    if res.violated:
        rep.violation(f'TLC: {res.violated} in AsmMC family {fam}', {'kind': 'mc', 'trace': res.errtrace[:3000]})
        return
    recs = [r for r in res.records if isinstance(r, dict) and 'k' in r]
    n = 14 * 4
    chunks = [recs[i::n] for i in range(n)]
    with SafePool(14) as pool:
        if recs and recs[0]['k'] == 'asm':
            outs = pool.map(_replay_asm, [(ch, seed + i) for i, ch in enumerate(chunks)])
        else:
            outs = pool.map(_replay_dis, chunks)
    bad = rejected = 0
    for ci, out in enumerate(outs):
        for j, d in enumerate(out):
            r = recs[ci + j * n]
            rep.case(json.dumps(r.get('toks') or r.get('b')))
            if isinstance(d, dict):
                rejected += 1 if d['rejected'] == 6 and r['ok'] else 0
                d = d['bytes'] if which == 'asm' else (d['listing'] if d['bytes'] is None else None)
            if d:
                bad += 1
                rep.violation(f'{fam}: {d[:600]}', {'kind': 'replay', 'family': fam, 'record': r})
            else:
                rep.traces += 1
    if recs:
        rep.sample({'family': fam, 'case': {k: (v if not isinstance(v, list) or len(v) < 40 else v[:40]) for k, v in recs[len(recs) // 2].items()}})
    rep.extra.setdefault('families', {})[fam] = {'cases': len(recs), 'mismatches': bad,
                                                 'encodable_but_rejected_in_every_spelling': rejected}


# ------------------------------------------------------------------ random abstract programs (code -> spec)
def V(k, i=0, b=b''):
    return {'k': k, 'i': i, 'b': list(b)}


def mk(n, a=0, y=b'', v=None, vs=(), b=(), c=(), st=''):
    return {'n': n, 'a': a, 'y': list(y), 'v': v or V('x'), 'vs': list(vs), 'b': list(b), 'c': list(c), 'st': st}


FMT_B1 = [2, 5, 7, 14, 15, 16, 21, 22, 27, 28, 31, 35, 36, 42, 54, 72, 76, 77, 78, 80, 89, 90, 91]
FMT_0 = [i for i in range(92) if i not in FMT_B1 and i not in (52, 70, 71, 23, 25, 60, 3, 10, 11, 17, 19, 49, 50, 64, 9, 4, 43, 69, 44, 61, 41)]


def rand_f32(r: random.Random, integral=False) -> bytes:
    """binary32 pattern of a small dyadic value (odd significand < 2^10, exponent -6..6; or 0 / -0)"""
    import struct
    if r.random() < 0.1:
        return struct.pack('!f', r.choice([0.0, -0.0]))
    m = r.randrange(1, 1024, 2)
    e = r.randrange(0, 7) if integral else r.randrange(-6, 7)
    return struct.pack('!f', r.choice([1, -1]) * m * 2.0 ** e)


def f_text(b) -> str:
    import struct
    from decimal import Decimal
    return format(Decimal(struct.unpack('!f', bytes(b))[0]), 'f')


def rand_val(r: random.Random, allow_s=True):
    c = r.random()
    if c < 0.35:
        return V('d', r.choice([0, 1, -1, 5, 127, 128, -128, -129, 255, 256, 65535, 65536, -70000, 8388607, r.randrange(-10 ** 6, 10 ** 6)]))
    if c < 0.45:
        from .ref.opsem import enc
        import math
        n = r.choice([1, -1]) * (2 ** r.choice([24, 31, 32, 63, 64, 100, 255]) + r.randrange(-2, 3))
        return V('D', b=enc(n))
    if c < 0.5:
        return V('f', b=rand_f32(r))
    if c < 0.8 or not allow_s:
        return V('x', b=r.randbytes(r.choice([0, 1, 2, 3, 20, 32, 64, 255, 256, 300])))
    word = lambda: ''.join(r.choice('abcxyz019') for _ in range(r.randrange(1, 6)))
    return V('s', b=' '.join(word() for _ in range(r.randrange(1, 4))).encode())


def rand_node(r: random.Random, depth: int):
    c = r.random()
    if depth < 3 and c < 0.25:
        k = r.choice(['if', 'if', 'ife', 'try', 'loop', 'def', 'macro', 'ct'])
        body = [rand_node(r, depth + 1) for _ in range(r.randrange(0, 3))]
        # END_ terminators are unambiguous only when no other IF is nested inside (dangling else /
        # shared END_IF): bodies that contain an IF at any depth are written with braces
        if k == 'if':
            cond = [rand_node(r, 3) for _ in range(r.choice([0, 0, 1, 2]))]
            plain = not any(y['n'] in ('if', 'ife') or _has_kind(y, 'if') or _has_kind(y, 'ife') for y in body)
            return mk('if', b=body, c=cond, st=r.choice(['brace', 'end']) if plain else 'brace')
        if k == 'ife':
            els = [rand_node(r, depth + 1) for _ in range(r.randrange(0, 3))]
            plain = not any(y['n'] in ('if', 'ife') or _has_kind(y, 'if') or _has_kind(y, 'ife') for y in body + els)
            return mk('ife', b=body, c=els, st=r.choice(['brace', 'end']) if plain else 'brace')
        if k == 'try':
            exc = [rand_node(r, depth + 1) for _ in range(r.randrange(0, 3))]
            exc = [x for x in exc if x['n'] != 'cmt']
            return mk('try', b=body, c=exc, st='brace' if exc else 'noexc')
        if k == 'loop':
            return mk('loop', b=body, st=r.choice(['brace', 'end']))
        if k == 'def':
            body = [x for x in body if x['n'] != 'def' and not _has_def(x)]
            return mk('def', a=r.choice([0, 1, 127, 128, 255]), b=body, st=r.choice(['brace', 'end', 'dval', 'xval']))
        body = [x for x in body if x['n'] not in ('cmt', 'macro') and not _has_kind(x, 'macro')] or [mk('op0', 1)]
        return mk(k, a=(r.randrange(10 ** 6) if k == 'macro' else 0), b=body)
    if c < 0.4:
        return mk('push', v=rand_val(r))
    if c < 0.55:
        return mk('op0', r.choice(FMT_0))
    if c < 0.7:
        op = r.choice(FMT_B1 + [r.randrange(92, 256)])
        return mk('b1', op, bytes([r.choice([0, 1, 2, 127, 128, 255, r.randrange(256)])]), st=r.choice(['d', 'x']))
    if c < 0.74:
        return mk('b2', 52, bytes([r.randrange(256), r.randrange(256)]))
    if c < 0.78:
        return mk('b3', r.choice([70, 71]), bytes([r.randrange(256), r.randrange(256), r.randrange(256)]))
    if c < 0.81:
        if r.random() < 0.4:
            return mk('f4', r.choice([23, 25]), rand_f32(r, integral=True), st='f')
        return mk('f4', r.choice([23, 25]), r.randbytes(4))
    if c < 0.84:
        return mk('h32', 60, r.randbytes(32))
    if c < 0.9:
        return mk('s1', r.choice([10, 11, 17, 19, 49, 50, 64]), v=rand_val(r))
    if c < 0.93:
        return mk('wc', r.choice([0, 1, 2, 255]), v=rand_val(r))
    if c < 0.95:
        y = r.randbytes(r.choice([0, 1, 5, 255]))
        return mk('p1', y=y, st='sz')
    if c < 0.96:
        return mk('p2', y=r.randbytes(r.choice([0, 1, 256, 1000])), st='sz')
    if c < 0.965 and depth == 0:
        return mk('macrop', r.randrange(10 ** 6), vs=[rand_val(r, allow_s=False) for _ in range(r.randrange(1, 4))])
    if c < 0.98:
        name = ''.join(r.choice('abkzKZ09') for _ in range(r.randrange(1, 4))).encode()
        k = r.choice(['vset', 'vvals', 'vload', 'vsize'])
        if k == 'vset':
            return mk('vset', r.choice([0, 1, 3]), name)
        if k == 'vvals':
            return mk('vvals', y=name, vs=[rand_val(r, allow_s=False) for _ in range(r.randrange(0, 3))])
        return mk(k, y=name)
    return mk('cmt')


def _has_kind(x, k):
    return any(y['n'] == k or _has_kind(y, k) for y in list(x['b']) + list(x['c']))


def _has_def(x):
    return any(y['n'] == 'def' or _has_def(y) for y in list(x['b']) + list(x['c']))


def hexb(b):
    return bytes(b).hex()


def val_tok(v):
    if v['k'] == 'd':
        return f"d{v['i']}"
    if v['k'] == 'D':
        return f"d{int.from_bytes(bytes(v['b']), 'big', signed=True)}"
    if v['k'] == 'x':
        return 'x' + hexb(v['b'])
    if v['k'] == 'f':
        return 'f' + f_text(v['b'])
    return 's"' + bytes(v['b']).decode() + '"'


def opname(a):
    return 'OP_' + NAMES[a] if a < 92 else f'NOP{a}'


def toks(x) -> list:
    n = x['n']
    body = lambda ns: [t for y in ns for t in toks(y)]
    s8 = lambda b: b - 256 if b >= 128 else b
    if n == 'op0':
        return [opname(x['a'])]
    if n == 'b1':
        return [opname(x['a']), ('x%02x' % x['y'][0]) if x['st'] == 'x' else f"d{s8(x['y'][0])}"]
    if n == 'b2':
        return [opname(x['a']), f"d{x['y'][0]}", f"d{x['y'][1]}"]
    if n == 'b3':
        return [opname(x['a']), 'x%02x' % x['y'][0], f"d{x['y'][1]}", f"d{x['y'][2]}"]
    if n in ('f4', 'h32'):
        return [opname(x['a']), ('f' + f_text(x['y'])) if x['st'] == 'f' else 'x' + hexb(x['y'])]
    if n == 's1':
        return [opname(x['a']), val_tok(x['v'])]
    if n == 'wc':
        return ['OP_WRITE_CACHE', val_tok(x['v']), f"d{x['a']}"]
    if n == 'push':
        return ['OP_PUSH', val_tok(x['v'])]
    if n in ('p1', 'p2'):
        return ['OP_PUSH1' if n == 'p1' else 'OP_PUSH2', f"d{len(x['y'])}", 'x' + hexb(x['y'])]
    if n == 'if':
        h = (['('] + body(x['c']) + [')']) if x['c'] else []
        return ['OP_IF'] + h + (body(x['b']) + ['END_IF'] if x['st'] == 'end' else ['{'] + body(x['b']) + ['}'])
    if n == 'ife':
        if x['st'] == 'end':
            return ['OP_IF'] + body(x['b']) + ['ELSE'] + body(x['c']) + ['END_IF']
        return ['OP_IF', '{'] + body(x['b']) + ['}', 'ELSE', '{'] + body(x['c']) + ['}']
    if n == 'try':
        if x['st'] == 'noexc':
            return ['OP_TRY', '{'] + body(x['b']) + ['}']
        return ['OP_TRY', '{'] + body(x['b']) + ['}', 'EXCEPT', '{'] + body(x['c']) + ['}']
    if n == 'loop':
        return ['OP_LOOP'] + (body(x['b']) + ['END_LOOP'] if x['st'] == 'end' else ['{'] + body(x['b']) + ['}'])
    if n == 'def':
        h = {'dval': f"d{x['a']}", 'xval': 'x%02x' % x['a']}.get(x['st'], str(x['a']))
        return ['OP_DEF', h] + (body(x['b']) + ['END_DEF'] if x['st'] == 'end' else ['{'] + body(x['b']) + ['}'])
    if n == 'vset':
        return ['@=', bytes(x['y']).decode(), str(x['a'])]
    if n == 'vvals':
        return ['@=', bytes(x['y']).decode(), '['] + [val_tok(v) for v in x['vs']] + [']']
    if n == 'vload':
        return ['@' + bytes(x['y']).decode()]
    if n == 'vsize':
        return ['@#' + bytes(x['y']).decode()]
    if n == 'macro':
        return ['!=', f"mm{x['a']}", '[', ']', '{'] + body(x['b']) + ['}', f"!mm{x['a']}", '[', ']']
    if n == 'macrop':
        out = ['!=', f"mp{x['a']}", '[', 'a', ']', '{', 'OP_PUSH', 'a', 'OP_TRUE', '}']
        for v in x['vs']:
            out += [f"!mp{x['a']}", '[', val_tok(v), ']']
        return out
    if n == 'ct':
        return ['OP_PUSH', '~', '{'] + body(x['b']) + ['}']
    if n == 'cmt':
        return ['#', 'a', 'comment', '#']
    raise ValueError(n)


def record_asm(seed: int, count: int):
    ts = _impl()
    out = []
    for i in range(count):
        r = random.Random(f'{seed}/{i}')
        prog = [rand_node(r, 0) for _ in range(r.randrange(1, 6))]
        src = render([t for x in prog for t in toks(x)], r.randrange(6), r)
        st, val = with_timeout(lambda: ts.compile_script(src), 10)
        out.append({'k': 'asm', 'p': prog, 'accepted': st == 'ok', 'got': list(val) if st == 'ok' else [],
                    'b': [], 'ok': False, 'relisted': [], 'src': src[:300], 'timeout': st == 'timeout'})
    return out


def _record_asm_chunk(a):
    return record_asm(*a)


def mutate(r: random.Random, b: bytes) -> bytes:
    b = bytearray(b)
    for _ in range(r.randrange(1, 4)):
        c = r.random()
        if not b:
            b += r.randbytes(3)
        elif c < 0.3:
            del b[r.randrange(len(b)):]
        elif c < 0.6:
            i = r.randrange(len(b))
            b[i:i + 2] = bytes(r.choice([(0x7f, 0xff), (0x80, 0x00), (0xff, 0xff), (0xff, 0xfd), (0x00, 0x00)]))
        elif c < 0.8:
            b[r.randrange(len(b))] = r.randrange(256)
        else:
            i = r.randrange(len(b))
            b[i:i] = bytes([r.choice([3, 4, 41, 43, 44, 61, 69, 9, 10])]) + r.randbytes(2)
    return bytes(b)


def record_dis(seed: int, count: int, maxlen: int, corpus: list):
    ts = _impl()
    out = []
    for i in range(count):
        r = random.Random(f'{seed}/d{i}')
        c = r.random()
        if c < 0.35 and corpus:
            b = mutate(r, r.choice(corpus))
        elif c < 0.5 and corpus:
            b = r.choice(corpus)
        elif c < 0.9:
            b = r.randbytes(r.randrange(0, 40))
        else:
            n = r.choice([300, 5000, maxlen])
            body = r.randbytes(n)
            n = min(n, 65535)          # (the length field is two bytes; a longer body simply continues after the item)
            b = r.choice([bytes([4]) + n.to_bytes(2, 'big') + body, bytes([43]) + n.to_bytes(2, 'big') + body,
                          bytes([4]) + r.choice([b'\x7f\xff', b'\x80\x00', b'\xff\xff']) + body, body])
        st, lines = with_timeout(lambda: ts.decompile_script(b), 20)
        relisted = []
        if st == 'ok':
            st2, back = with_timeout(lambda: ts.compile_script('\n'.join(lines)), 20)
            relisted = list(back) if st2 == 'ok' else [999]
        out.append({'k': 'dis', 'p': [], 'accepted': False, 'got': [], 'b': list(b), 'ok': st == 'ok', 'relisted': relisted,
                    'src': '', 'timeout': st == 'timeout'})
    return out


def boundary_dis_cases():
    """operand sizes on both sides of 2^7, 2^8, 2^15 and 2^16: pushes of exactly those sizes and blocks whose body
    (one push filling it) has exactly those sizes"""
    ts = _impl()
    out = []
    strings = []
    for n in (127, 128, 129, 254, 255):
        strings.append(bytes([3, n]) + bytes([n % 251] * n) + b'\x01')
    for n in (255, 256, 257, 32767, 32768, 32769, 65534, 65535):
        body = bytes([4]) + n.to_bytes(2, 'big') + bytes([(n + 7) % 251] * n)
        strings.append(body + b'\x01')
        if len(body) <= 65535:
            for opc in (43, 69):
                strings.append(b'\x01' + bytes([opc]) + len(body).to_bytes(2, 'big') + body)
            strings.append(bytes([41, 5]) + len(body).to_bytes(2, 'big') + body)
            strings.append(bytes([61]) + len(body).to_bytes(2, 'big') + body + b'\x00\x01\x01')
            strings.append(bytes([44]) + b'\x00\x01\x01' + len(body).to_bytes(2, 'big') + body)
    for n in (32764, 65532):          # a block body of exactly 2^15 - 1 / 2^16 - 1 bytes
        body = bytes([4]) + n.to_bytes(2, 'big') + bytes([9] * n)
        strings.append(b'\x01' + bytes([43]) + len(body).to_bytes(2, 'big') + body)
    for b in strings:
        st, lines = with_timeout(lambda: ts.decompile_script(b), 20)
        relisted = []
        if st == 'ok':
            st2, back = with_timeout(lambda: ts.compile_script('\n'.join(lines)), 20)
            relisted = list(back) if st2 == 'ok' else [999]
        out.append({'k': 'dis', 'p': [], 'accepted': False, 'got': [], 'b': list(b), 'ok': st == 'ok', 'relisted': relisted,
                    'src': '', 'timeout': st == 'timeout'})
    return out


def _record_dis_chunk(a):
    return record_dis(*a)


def judge(rep: Report, cases: list, label: str, shards: int = 12):
    """TLC judges recorded cases (AsmMC family "trace")."""
    for cse in cases:
        if cse['timeout']:
            rep.violation(f"{label}: did not terminate: {cse['src'] or bytes(cse['b']).hex()[:200]}", {'kind': 'trace', 'case': {k: cse[k] for k in ('k', 'src')}})
    cases = [c for c in cases if not c['timeout']]
    d = tlc.scratch_dir('asm')
    try:
        shards = max(1, min(shards, len(cases)))
        paths = []
        for s in range(shards):
            p = os.path.join(d, f's{s}.json')
            with open(p, 'w') as f:
                json.dump([{k: c[k] for k in ('k', 'p', 'accepted', 'got', 'b', 'ok', 'relisted')} for c in cases[s::shards]], f)
            paths.append(p)
        with ThreadPoolExecutor(max_workers=shards) as ex:
            results = list(ex.map(lambda p: tlc.run_tlc('AsmMC', CFG % 'trace', workers=1, timeout=3000, env={'TRACE_FILE': p},
                                                        heap='4g'), paths))
    finally:
        shutil.rmtree(d, ignore_errors=True)
    for s, res in enumerate(results):
        rep.add_tlc(res, f'trace:{label}')
        if res.violated:
            raise tlc.MachineryError('AsmMC trace: ' + res.violated + res.errtrace[:1500])
        part = cases[s::shards]
        verd = {r['i']: r['v'] for r in res.records if isinstance(r, dict) and 'i' in r}
        if len(verd) != len(part):
            raise tlc.MachineryError(f'AsmMC trace: {len(verd)} verdicts for {len(part)} cases\n' + res.output[-1500:])
        for i, cse in enumerate(part, 1):
            rep.case(json.dumps(cse['p'] or cse['b'])[:4000])
            if verd[i] == 'ok':
                rep.traces += 1
            else:
                rep.extra.setdefault('rejected_cases', []).append({'verdict': verd[i], 'src': cse['src'], 'got': bytes(cse['got']).hex(), 'p': cse['p']} if len(rep.extra.get('rejected_cases', [])) < 12 else {})
                rep.violation(f"{label}: implementation case rejected by Asm.tla ({verd[i]}): "
                              f"{cse['src'] or bytes(cse['b']).hex()[:300]} -> {bytes(cse['got'] or cse['relisted']).hex()[:200] if 999 not in (cse['got'] or cse['relisted']) else 'error'}",
                              {'kind': 'trace', 'case': cse})


def builder_corpus() -> list:
    """bytes of every lock / witness builder with generated arguments + repository vectors"""
    ts = _impl()
    import glob
    out = []
    for f in glob.glob(os.path.join(REPO, 'tests', 'vectors', '*.hex')):
        try:
            out.append(bytes.fromhex(open(f).read().strip()))
        except Exception:
            pass
    T = ts.tools
    seed = b'\x11' * 32
    pk = bytes(ts.functions.SigningKey(seed).verify_key)
    pk2 = bytes(ts.functions.SigningKey(b'\x22' * 32).verify_key)
    sf = {'sigfield1': b'hello', 'sigfield2': b'world'}
    s1 = T.Script.from_src('true')
    try:
        out += [bytes(x.bytes) for x in [
            T.make_single_sig_lock(pk), T.make_single_sig_lock2(pk), T.make_single_sig_witness(seed, sf), T.make_single_sig_witness2(seed, sf),
            T.make_multisig_lock([pk, pk2], 2), T.make_timestamp_after_lock(1700000000), T.make_timestamp_before_lock(1700000000, True),
            T.make_timestamp_between_lock(5, 70000), T.make_scripthash_lock(s1), T.make_scripthash_witness(s1),
            T.make_delegate_key_lock(pk), T.make_delegate_key_chain_lock(pk), T.make_graftroot_lock(pk),
            T.make_graftroot_witness_keyspend(seed, sf), T.make_graftroot_witness_surrogate(seed, s1),
            T.make_htlc_sha256_lock(pk, pk2, preimage=b'p' * 16), T.make_htlc_shake256_lock(pk, pk2, preimage=b'p' * 16),
            T.make_htlc2_sha256_lock(pk, pk2, preimage=b'p' * 16), T.make_htlc2_shake256_lock(pk, pk2, preimage=b'p' * 16),
            T.make_htlc_witness(seed, b'p' * 16, sf), T.make_htlc2_witness(seed, b'p' * 16, sf), T.make_ptlc_lock(pk, pk2),
            T.make_ptlc_witness(seed, sf), T.make_ptlc_refund_witness(seed, sf), T.make_taproot_lock(pk, s1),
            T.make_taproot_witness_keyspend(seed, sf, s1), T.make_taproot_witness_scriptspend(pk, s1),
            T.make_nonnative_taproot_lock(pk, s1), T.make_graftap_lock(pk), T.make_graftap_witness_keyspend(seed, sf),
            T.make_graftap_witness_scriptspend(seed, s1), T.make_adapter_lock_pub(pk, pk2), *T.make_adapter_locks_pub(pk, pk2),
            T.make_adapter_decrypt(b'\x05' * 32), T.make_adapter_witness(seed, pk2, sf),
            T.make_delegate_key_witness(seed, T.make_delegate_key_cert(seed, pk2, 5, 70000), sf),
        ]]
        lock, scripts = T.make_merklized_script_prioritized(['true', 'false', 'push d5'])
        out += [bytes(lock.bytes)] + [bytes(s.bytes) for s in scripts]
    except BaseException as e:      # a builder that cannot be called is reported by its own property check
        if isinstance(e, (KeyboardInterrupt, SystemExit)):
            raise
    return out
