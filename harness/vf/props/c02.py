"""C02 - signature instructions verify exactly the flag-selected message."""
import random, sys
from ..par import SafePool
from ..common import Report, REPO
from .. import scncheck
from ..gen.progs import push, op, b1
from ..ref import ed25519 as E
from ..ref.opsem import message

INV = ['SignThenCheck', 'CoveredChangeFails', 'ExcludedChangeIrrelevant', 'NeverTrueWhenMalformed', 'CoveredExact']
SEEDS = {1: b'\x01' * 32, 2: b'\x02' * 32}
_sigcache = {}


def _impl():
    if REPO not in sys.path:
        sys.path.insert(0, REPO)
    import tapescript.functions as F
    return F


def sign(seed: bytes, msg: bytes) -> bytes:
    """independent signature (PyNaCl's signer is used for speed; cross-checked against the pure-Python
    reference on a sample in main())"""
    k = (seed, msg)
    if k not in _sigcache:
        from nacl.signing import SigningKey
        _sigcache[k] = SigningKey(seed).sign(msg).signature
        if len(_sigcache) > 200000:
            _sigcache.clear()
    return _sigcache[k]


def flip(b: bytes, lo: int, hi: int, rng) -> bytes:
    i = rng.randrange(lo, hi)
    return b[:i] + bytes([b[i] ^ (1 << rng.randrange(8))]) + b[i + 1:]


def fit(b: bytes, n: int, rng) -> bytes:
    return b[:n] if len(b) >= n else b + rng.randbytes(n - len(b))


def run_case(k: dict, f0: dict | None = None, f1: dict | None = None):
    """k: scenario record; f0 / f1: explicit contents (else the family's C0 / C1 contents)"""
    F = _impl()
    rng = random.Random(str(sorted((a, str(b)) for a, b in k.items() if a not in ('expect', 'msgS', 'msgC', 'got', 'gotmsg'))))
    if f0 is None:
        c0 = lambda i: b'\x01' if i % 2 == 1 else b'\x01\x01'
        f0 = {i: c0(i) for i in range(1, 9) if k['pres0'][i - 1]}
        f1 = {i: (c0(i) + b'\x02' if k['changed'][i - 1] else c0(i)) for i in range(1, 9) if k['pres1'][i - 1]}
    cache0 = {f'sigfield{i}': v for i, v in f0.items()}
    cache1 = {f'sigfield{i}': v for i, v in f1.items()}
    instr = k['instr']
    seed_s, seed_c = SEEDS[k['signer']], SEEDS[k['checker']]
    pk = E.public_key(seed_c) if False else _pk(seed_c)
    gotmsg = b''

    last_cache = {}

    def outcome(script, cache):
        try:
            _, stack, cch = F.run_script(script, cache)
            last_cache.clear()
            last_cache.update(cch)
        except BaseException as e:
            if isinstance(e, (KeyboardInterrupt, SystemExit)):
                raise
            return 'error', None
        return 'ran', stack

    if instr == 'MSG':
        st, stack = outcome(op('GET_MESSAGE', b1(k['flagC'])), cache1)
        if st == 'error' or len(stack) != 1:
            return 'error', None
        gotmsg = stack.list()[-1]
        if 'msgC' in k and list(gotmsg) != list(k['msgC']):
            return 'msg-mismatch', gotmsg.hex()
        return 'msg', gotmsg
    if instr in ('SIGN', 'SIGNSTACK'):
        seed = fit(seed_s, k['klen'], rng)
        msg = message(cache1, k['flagC'])
        script = (push(seed) + op('SIGN', b1(k['flagC']))) if instr == 'SIGN' else (push(msg) + push(seed) + op('SIGN_STACK'))
        st, stack = outcome(script, cache1)
        if st == 'error' or len(stack) != 1:
            return 'error', None
        sig = stack.list()[-1]
        want_len = 65 if (instr == 'SIGN' and k['flagC']) else 64
        if len(sig) != want_len or (want_len == 65 and sig[64] != k['flagC']):
            return 'bad-signature-shape', sig.hex()
        if not _verify(_pk(seed), msg, sig[:64]):
            return 'signature-does-not-cover-the-selected-message', sig.hex()
        # the signature is also published in the cache (key s, tape flag 9 default on): the very item left on the stack,
        # flag byte included - a script that takes it from there (@s) must be able to check it
        if last_cache.get(b's') not in (sig, [sig]):
            return 'signature-published-in-cache-differs-from-stack', repr(last_cache.get(b's'))[:80]
        return 'signed', msg
    # checking instructions
    if instr == 'CSS':
        msg_s = b'message-a' if k['flagS'] == 0 else b'message-b'
        msg_c = b'message-a' if k['flagC'] == 0 else b'message-b'
        sig = sign(seed_s, msg_s)
    else:
        sig = sign(seed_s, message(cache0, k['flagS']))
    key = pk
    if k['tamper'] == 'sigR':
        sig = flip(sig, 0, 32, rng)
    elif k['tamper'] == 'sigS':
        sig = flip(sig, 32, 64, rng)
    elif k['tamper'] == 'key':
        key = flip(key, 0, 32, rng)
    if instr == 'CSS':
        sig = fit(sig, k['slen'], rng)
        key = fit(key, k['klen'], rng)
        script = push(sig) + push(msg_c) + push(key) + op('CHECK_SIG_STACK')
    else:
        if k['slen'] == 65:
            sig = sig + b1(k['flagC'])
        else:
            sig = fit(sig, k['slen'], rng)
        key = fit(key, k['klen'], rng)
        script = push(sig) + push(key) + op('CHECK_SIG' if instr == 'CS' else 'CHECK_SIG_VERIFY', b1(k['allowed']))
    st, stack = outcome(script, cache1)
    if st == 'error':
        return 'error', None
    if instr == 'CSV':
        return ('ok' if len(stack) == 0 else 'leftover'), None
    if len(stack) != 1:
        return 'leftover', None
    top = stack.list()[-1]
    return ('true' if top == b'\xff' else 'false' if top == b'\x00' else 'other'), None


_pks = {}


def _pk(seed):
    if seed not in _pks:
        from nacl.signing import SigningKey
        _pks[seed] = bytes(SigningKey(seed).verify_key) if len(seed) == 32 else b''
    return _pks[seed]


def _verify(pk, msg, sig):
    try:
        from nacl.signing import VerifyKey
        VerifyKey(pk).verify(msg, sig)
        return True
    except Exception:
        return False


def run_mc(k):
    got, detail = run_case(k)
    return got, detail


def record_random(args):
    seed, n = args
    out = []
    for j in range(n):
        r = random.Random(f'{seed}/{j}')
        instr = r.choice(['CS', 'CS', 'CSV', 'MSG', 'SIGN', 'CSS', 'SIGNSTACK'])
        f0 = {i: r.randbytes(r.choice([0, 1, 2, 32, 200])) for i in range(1, 9) if r.random() < 0.6}
        f1 = dict(f0)
        m = r.random()
        if m < 0.3 and f1:
            i = r.choice(list(f1))
            f1[i] = f1[i] + b'x' if r.random() < 0.5 else r.randbytes(len(f1[i]))
        elif m < 0.4:
            f1[r.randrange(1, 9)] = r.randbytes(3)
        elif m < 0.45 and f1:
            del f1[r.choice(list(f1))]
        flagS = r.choice([0, 0, 1, 3, 128, 255, r.randrange(256)])
        flagC = flagS if r.random() < 0.8 else r.randrange(256)
        if instr in ('CSS', 'SIGNSTACK'):
            flagS, flagC = r.choice([(0, 0), (0, 1), (1, 1)])
        slen = (65 if flagC else r.choice([64, 64, 65])) if r.random() < 0.9 else r.choice([0, 63, 66])
        if instr == 'CSS':
            slen = 64 if r.random() < 0.9 else r.choice([63, 65])
        if slen == 64 and instr in ('CS', 'CSV'):
            flagC = 0
        k = {'instr': instr, 'pres0': [int(i in f0) for i in range(1, 9)], 'pres1': [int(i in f1) for i in range(1, 9)],
             'changed': [0] * 8, 'flagS': flagS, 'flagC': flagC, 'allowed': r.choice([255, flagC, 0, r.randrange(256)]),
             'signer': r.choice([1, 1, 1, 2]), 'checker': 1, 'tamper': r.choice(['none'] * 5 + ['sigR', 'sigS', 'key']),
             'klen': 32 if r.random() < 0.92 else r.choice([31, 33, 0]), 'slen': slen}
        got, detail = run_case(k, f0, f1)
        gotmsg = list(detail) if got in ('msg', 'signed') and isinstance(detail, (bytes, bytearray)) else []
        out.append({**k, 'f0': [[i, list(v)] for i, v in f0.items()], 'f1': [[i, list(v)] for i, v in f1.items()],
                    'got': got, 'gotmsg': gotmsg})
    return out


def main(tier: str, seed: int) -> int:
    rep = Report('C02', tier, seed)
    rep.rule = ('MC (SigMsg.tla, ideal signatures): families perm (all 256 flag bytes x 256 allowed-flag operands for CHECK_SIG), '
                'permv (CHECK_SIG_VERIFY), select (all 256 presence patterns x 256 flags for GET_MESSAGE, SIGN and sign-then-'
                'check), corrupt (signing / checking field sets, single-field changes at every position, absent->present, flag '
                'byte swaps, wrong signer, R / s / key bit flips), lengths (key and signature lengths around 32 / 64 / 65 for all '
                'six instructions), css; laws SignThenCheck, CoveredChangeFails, ExcludedChangeIrrelevant, NeverTrueWhenMalformed, '
                'CoveredExact checked by TLC on every case; every case concretised (seeds, real Ed25519 signatures from an '
                'independent signer, single-bit flips) and executed as a script through run_script; GET_MESSAGE output compared '
                'bytewise, SIGN output verified over the specified message. traces: random field sets (0..200 bytes), flags, masks, '
                'perturbations judged by TLC.')
    rep.assumptions = ['Ed25519 itself is ideal (a forged or bit-flipped signature verifying has negligible probability)',
                       'the independent signer is PyNaCl (libsodium), cross-checked against the pure-Python RFC 8032 reference']
    # cross-check the fast signer against the reference implementation
    rr = random.Random(seed)
    for _ in range(5):
        s, m = rr.randbytes(32), rr.randbytes(rr.randrange(0, 50))
        if sign(s, m) != E.sign(s, m) or not E.verify(E.public_key(s), m, sign(s, m)):
            raise RuntimeError('signer cross-check failed')
    quick = tier == 'quick'
    fams = ['perm', 'corrupt', 'lengths', 'css', 'permv'] + (['selectq'] if quick else ['select'])
    for fam in fams:
        scncheck.mc(rep, 'SigMsg', fam, INV, run_mc)
    import multiprocessing as mp
    n = 3000 if quick else 60000
    with SafePool(14) as pool:
        cases = [c for ch in pool.map(record_random, [(seed * 31 + i, n // 28) for i in range(28)]) for c in ch]
    scncheck.judge(rep, 'SigMsg', [], cases, 'random signature scenarios')
    return rep.finish()


def replay(path: str) -> int:
    import json
    obj = json.load(open(path))
    if obj.get('kind') == 'replay':
        got, d = run_case(obj['case'])
        print(got, d, 'expected', obj['case']['expect'])
        return 0 if got == obj['case']['expect'] else 1
    return 2
