---- MODULE TapeVMMC_TTrace_1790380330 ----
EXTENDS Sequences, TLCExt, Toolbox, Naturals, TLC, TapeVMMC

_expression ==
    LET TapeVMMC_TEExpression == INSTANCE TapeVMMC_TEExpression
    IN TapeVMMC_TEExpression!expression
----

_trace ==
    LET TapeVMMC_TETrace == INSTANCE TapeVMMC_TETrace
    IN TapeVMMC_TETrace!trace
----

_inv ==
    ~(
        TLCGet("level") = Len(_TETrace)
        /\
        vm = ([x |-> <<>>, status |-> "done", bc |-> <<>>, cfg |-> [scripts |-> <<<<2, 11>>>>, hist |-> TRUE, maxItems |-> 64, maxItemSize |-> 64, callLimit |-> 4, auth |-> FALSE, sc |-> <<>>, now |-> <<>>, ret0 |-> FALSE, defaults |-> ([b |-> <<>>, s |-> "ts_threshold", t |-> "s"] :> 60 @@ [b |-> <<>>, s |-> "epoch_threshold", t |-> "s"] :> 60 @@ [b |-> <<0>>, s |-> "", t |-> "i"] :> 1 @@ [b |-> <<1>>, s |-> "", t |-> "i"] :> 1 @@ [b |-> <<2>>, s |-> "", t |-> "i"] :> 1 @@ [b |-> <<3>>, s |-> "", t |-> "i"] :> 1 @@ [b |-> <<4>>, s |-> "", t |-> "i"] :> 1 @@ [b |-> <<5>>, s |-> "", t |-> "i"] :> 1 @@ [b |-> <<6>>, s |-> "", t |-> "i"] :> 1 @@ [b |-> <<7>>, s |-> "", t |-> "i"] :> 1 @@ [b |-> <<8>>, s |-> "", t |-> "i"] :> 1 @@ [b |-> <<9>>, s |-> "", t |-> "i"] :> 1 @@ [b |-> <<10>>, s |-> "", t |-> "i"] :> 1), toset |-> {[b |-> <<>>, s |-> "ts_threshold", t |-> "s"], [b |-> <<>>, s |-> "epoch_threshold", t |-> "s"], [b |-> <<0>>, s |-> "", t |-> "i"], [b |-> <<1>>, s |-> "", t |-> "i"], [b |-> <<2>>, s |-> "", t |-> "i"], [b |-> <<3>>, s |-> "", t |-> "i"], [b |-> <<4>>, s |-> "", t |-> "i"], [b |-> <<5>>, s |-> "", t |-> "i"], [b |-> <<6>>, s |-> "", t |-> "i"], [b |-> <<7>>, s |-> "", t |-> "i"], [b |-> <<8>>, s |-> "", t |-> "i"], [b |-> <<9>>, s |-> "", t |-> "i"], [b |-> <<10>>, s |-> "", t |-> "i"]}, nsig |-> 0, contracts |-> {}, nct |-> 0, forks |-> <<>>, flags |-> <<>>, bc0 |-> <<>>], stack |-> <<<<11>>>>, exc |-> "none", ret |-> FALSE, obs |-> [hist |-> <<<<1, 1, 0, 2>>>>, plug |-> 0, last |-> <<1, 0, 2>>], tapes |-> <<[plug |-> TRUE, pc |-> 2, code |-> <<2, 11>>, fid |-> 1, did |-> 1, cnt |-> 0, contr |-> TRUE]>>, frames |-> <<>>, sidx |-> 1, fheap |-> <<([b |-> <<>>, s |-> "ts_threshold", t |-> "s"] :> 60 @@ [b |-> <<>>, s |-> "epoch_threshold", t |-> "s"] :> 60 @@ [b |-> <<0>>, s |-> "", t |-> "i"] :> 1 @@ [b |-> <<1>>, s |-> "", t |-> "i"] :> 1 @@ [b |-> <<2>>, s |-> "", t |-> "i"] :> 1 @@ [b |-> <<3>>, s |-> "", t |-> "i"] :> 1 @@ [b |-> <<4>>, s |-> "", t |-> "i"] :> 1 @@ [b |-> <<5>>, s |-> "", t |-> "i"] :> 1 @@ [b |-> <<6>>, s |-> "", t |-> "i"] :> 1 @@ [b |-> <<7>>, s |-> "", t |-> "i"] :> 1 @@ [b |-> <<8>>, s |-> "", t |-> "i"] :> 1 @@ [b |-> <<9>>, s |-> "", t |-> "i"] :> 1 @@ [b |-> <<10>>, s |-> "", t |-> "i"] :> 1)>>, dheap |-> <<<<>>>>, r |-> <<>>, p |-> <<>>, lastexc |-> "none"])
    )
----

_init ==
    /\ vm = _TETrace[1].vm
----

_next ==
    /\ \E i,j \in DOMAIN _TETrace:
        /\ \/ /\ j = i + 1
              /\ i = TLCGet("level")
        /\ vm  = _TETrace[i].vm
        /\ vm' = _TETrace[j].vm

\* Uncomment the ASSUME below to write the states of the error trace
\* to the given file in Json format. Note that you can pass any tuple
\* to `JsonSerialize`. For example, a sub-sequence of _TETrace.
    \* ASSUME
    \*     LET J == INSTANCE Json
    \*         IN J!JsonSerialize("TapeVMMC_TTrace_1790380330.json", _TETrace)

=============================================================================

 Note that you can extract this module `TapeVMMC_TEExpression`
  to a dedicated file to reuse `expression` (the module in the 
  dedicated `TapeVMMC_TEExpression.tla` file takes precedence 
  over the module `TapeVMMC_TEExpression` below).

---- MODULE TapeVMMC_TEExpression ----
EXTENDS Sequences, TLCExt, Toolbox, Naturals, TLC, TapeVMMC

expression == 
    [
        \* To hide variables of the `TapeVMMC` spec from the error trace,
        \* remove the variables below.  The trace will be written in the order
        \* of the fields of this record.
        vm |-> vm
        
        \* Put additional constant-, state-, and action-level expressions here:
        \* ,_stateNumber |-> _TEPosition
        \* ,_vmUnchanged |-> vm = vm'
        
        \* Format the `vm` variable as Json value.
        \* ,_vmJson |->
        \*     LET J == INSTANCE Json
        \*     IN J!ToJson(vm)
        
        \* Lastly, you may build expressions over arbitrary sets of states by
        \* leveraging the _TETrace operator.  For example, this is how to
        \* count the number of times a spec variable changed up to the current
        \* state in the trace.
        \* ,_vmModCount |->
        \*     LET F[s \in DOMAIN _TETrace] ==
        \*         IF s = 1 THEN 0
        \*         ELSE IF _TETrace[s].vm # _TETrace[s-1].vm
        \*             THEN 1 + F[s-1] ELSE F[s-1]
        \*     IN F[_TEPosition - 1]
    ]

=============================================================================



Parsing and semantic processing can take forever if the trace below is long.
 In this case, it is advised to uncomment the module below to deserialize the
 trace from a generated binary file.

\*
\*---- MODULE TapeVMMC_TETrace ----
\*EXTENDS IOUtils, TLC, TapeVMMC
\*
\*trace == IODeserialize("TapeVMMC_TTrace_1790380330.bin", TRUE)
\*
\*=============================================================================
\*

---- MODULE TapeVMMC_TETrace ----
EXTENDS TLC, TapeVMMC

trace == 
    <<
    ([vm |-> [x |-> <<>>, status |-> "run", bc |-> <<>>, cfg |-> [scripts |-> <<<<2, 11>>>>, hist |-> TRUE, maxItems |-> 64, maxItemSize |-> 64, callLimit |-> 4, auth |-> FALSE, sc |-> <<>>, now |-> <<>>, ret0 |-> FALSE, defaults |-> ([b |-> <<>>, s |-> "ts_threshold", t |-> "s"] :> 60 @@ [b |-> <<>>, s |-> "epoch_threshold", t |-> "s"] :> 60 @@ [b |-> <<0>>, s |-> "", t |-> "i"] :> 1 @@ [b |-> <<1>>, s |-> "", t |-> "i"] :> 1 @@ [b |-> <<2>>, s |-> "", t |-> "i"] :> 1 @@ [b |-> <<3>>, s |-> "", t |-> "i"] :> 1 @@ [b |-> <<4>>, s |-> "", t |-> "i"] :> 1 @@ [b |-> <<5>>, s |-> "", t |-> "i"] :> 1 @@ [b |-> <<6>>, s |-> "", t |-> "i"] :> 1 @@ [b |-> <<7>>, s |-> "", t |-> "i"] :> 1 @@ [b |-> <<8>>, s |-> "", t |-> "i"] :> 1 @@ [b |-> <<9>>, s |-> "", t |-> "i"] :> 1 @@ [b |-> <<10>>, s |-> "", t |-> "i"] :> 1), toset |-> {[b |-> <<>>, s |-> "ts_threshold", t |-> "s"], [b |-> <<>>, s |-> "epoch_threshold", t |-> "s"], [b |-> <<0>>, s |-> "", t |-> "i"], [b |-> <<1>>, s |-> "", t |-> "i"], [b |-> <<2>>, s |-> "", t |-> "i"], [b |-> <<3>>, s |-> "", t |-> "i"], [b |-> <<4>>, s |-> "", t |-> "i"], [b |-> <<5>>, s |-> "", t |-> "i"], [b |-> <<6>>, s |-> "", t |-> "i"], [b |-> <<7>>, s |-> "", t |-> "i"], [b |-> <<8>>, s |-> "", t |-> "i"], [b |-> <<9>>, s |-> "", t |-> "i"], [b |-> <<10>>, s |-> "", t |-> "i"]}, nsig |-> 0, contracts |-> {}, nct |-> 0, forks |-> <<>>, flags |-> <<>>, bc0 |-> <<>>], stack |-> <<>>, exc |-> "none", ret |-> FALSE, obs |-> [hist |-> <<>>, plug |-> 0, last |-> <<0, 0, 0>>], tapes |-> <<[plug |-> TRUE, pc |-> 0, code |-> <<2, 11>>, fid |-> 1, did |-> 1, cnt |-> 0, contr |-> TRUE]>>, frames |-> <<[tid |-> 1, kind |-> "top", saved |-> 0, xbody |-> <<>>, iter |-> 0]>>, sidx |-> 1, fheap |-> <<([b |-> <<>>, s |-> "ts_threshold", t |-> "s"] :> 60 @@ [b |-> <<>>, s |-> "epoch_threshold", t |-> "s"] :> 60 @@ [b |-> <<0>>, s |-> "", t |-> "i"] :> 1 @@ [b |-> <<1>>, s |-> "", t |-> "i"] :> 1 @@ [b |-> <<2>>, s |-> "", t |-> "i"] :> 1 @@ [b |-> <<3>>, s |-> "", t |-> "i"] :> 1 @@ [b |-> <<4>>, s |-> "", t |-> "i"] :> 1 @@ [b |-> <<5>>, s |-> "", t |-> "i"] :> 1 @@ [b |-> <<6>>, s |-> "", t |-> "i"] :> 1 @@ [b |-> <<7>>, s |-> "", t |-> "i"] :> 1 @@ [b |-> <<8>>, s |-> "", t |-> "i"] :> 1 @@ [b |-> <<9>>, s |-> "", t |-> "i"] :> 1 @@ [b |-> <<10>>, s |-> "", t |-> "i"] :> 1)>>, dheap |-> <<<<>>>>, r |-> <<>>, p |-> <<>>, lastexc |-> "none"]]),
    ([vm |-> [x |-> <<>>, status |-> "run", bc |-> <<>>, cfg |-> [scripts |-> <<<<2, 11>>>>, hist |-> TRUE, maxItems |-> 64, maxItemSize |-> 64, callLimit |-> 4, auth |-> FALSE, sc |-> <<>>, now |-> <<>>, ret0 |-> FALSE, defaults |-> ([b |-> <<>>, s |-> "ts_threshold", t |-> "s"] :> 60 @@ [b |-> <<>>, s |-> "epoch_threshold", t |-> "s"] :> 60 @@ [b |-> <<0>>, s |-> "", t |-> "i"] :> 1 @@ [b |-> <<1>>, s |-> "", t |-> "i"] :> 1 @@ [b |-> <<2>>, s |-> "", t |-> "i"] :> 1 @@ [b |-> <<3>>, s |-> "", t |-> "i"] :> 1 @@ [b |-> <<4>>, s |-> "", t |-> "i"] :> 1 @@ [b |-> <<5>>, s |-> "", t |-> "i"] :> 1 @@ [b |-> <<6>>, s |-> "", t |-> "i"] :> 1 @@ [b |-> <<7>>, s |-> "", t |-> "i"] :> 1 @@ [b |-> <<8>>, s |-> "", t |-> "i"] :> 1 @@ [b |-> <<9>>, s |-> "", t |-> "i"] :> 1 @@ [b |-> <<10>>, s |-> "", t |-> "i"] :> 1), toset |-> {[b |-> <<>>, s |-> "ts_threshold", t |-> "s"], [b |-> <<>>, s |-> "epoch_threshold", t |-> "s"], [b |-> <<0>>, s |-> "", t |-> "i"], [b |-> <<1>>, s |-> "", t |-> "i"], [b |-> <<2>>, s |-> "", t |-> "i"], [b |-> <<3>>, s |-> "", t |-> "i"], [b |-> <<4>>, s |-> "", t |-> "i"], [b |-> <<5>>, s |-> "", t |-> "i"], [b |-> <<6>>, s |-> "", t |-> "i"], [b |-> <<7>>, s |-> "", t |-> "i"], [b |-> <<8>>, s |-> "", t |-> "i"], [b |-> <<9>>, s |-> "", t |-> "i"], [b |-> <<10>>, s |-> "", t |-> "i"]}, nsig |-> 0, contracts |-> {}, nct |-> 0, forks |-> <<>>, flags |-> <<>>, bc0 |-> <<>>], stack |-> <<<<11>>>>, exc |-> "none", ret |-> FALSE, obs |-> [hist |-> <<<<1, 1, 0, 2>>>>, plug |-> 0, last |-> <<1, 0, 2>>], tapes |-> <<[plug |-> TRUE, pc |-> 2, code |-> <<2, 11>>, fid |-> 1, did |-> 1, cnt |-> 0, contr |-> TRUE]>>, frames |-> <<[tid |-> 1, kind |-> "top", saved |-> 0, xbody |-> <<>>, iter |-> 0]>>, sidx |-> 1, fheap |-> <<([b |-> <<>>, s |-> "ts_threshold", t |-> "s"] :> 60 @@ [b |-> <<>>, s |-> "epoch_threshold", t |-> "s"] :> 60 @@ [b |-> <<0>>, s |-> "", t |-> "i"] :> 1 @@ [b |-> <<1>>, s |-> "", t |-> "i"] :> 1 @@ [b |-> <<2>>, s |-> "", t |-> "i"] :> 1 @@ [b |-> <<3>>, s |-> "", t |-> "i"] :> 1 @@ [b |-> <<4>>, s |-> "", t |-> "i"] :> 1 @@ [b |-> <<5>>, s |-> "", t |-> "i"] :> 1 @@ [b |-> <<6>>, s |-> "", t |-> "i"] :> 1 @@ [b |-> <<7>>, s |-> "", t |-> "i"] :> 1 @@ [b |-> <<8>>, s |-> "", t |-> "i"] :> 1 @@ [b |-> <<9>>, s |-> "", t |-> "i"] :> 1 @@ [b |-> <<10>>, s |-> "", t |-> "i"] :> 1)>>, dheap |-> <<<<>>>>, r |-> <<>>, p |-> <<>>, lastexc |-> "none"]]),
    ([vm |-> [x |-> <<>>, status |-> "done", bc |-> <<>>, cfg |-> [scripts |-> <<<<2, 11>>>>, hist |-> TRUE, maxItems |-> 64, maxItemSize |-> 64, callLimit |-> 4, auth |-> FALSE, sc |-> <<>>, now |-> <<>>, ret0 |-> FALSE, defaults |-> ([b |-> <<>>, s |-> "ts_threshold", t |-> "s"] :> 60 @@ [b |-> <<>>, s |-> "epoch_threshold", t |-> "s"] :> 60 @@ [b |-> <<0>>, s |-> "", t |-> "i"] :> 1 @@ [b |-> <<1>>, s |-> "", t |-> "i"] :> 1 @@ [b |-> <<2>>, s |-> "", t |-> "i"] :> 1 @@ [b |-> <<3>>, s |-> "", t |-> "i"] :> 1 @@ [b |-> <<4>>, s |-> "", t |-> "i"] :> 1 @@ [b |-> <<5>>, s |-> "", t |-> "i"] :> 1 @@ [b |-> <<6>>, s |-> "", t |-> "i"] :> 1 @@ [b |-> <<7>>, s |-> "", t |-> "i"] :> 1 @@ [b |-> <<8>>, s |-> "", t |-> "i"] :> 1 @@ [b |-> <<9>>, s |-> "", t |-> "i"] :> 1 @@ [b |-> <<10>>, s |-> "", t |-> "i"] :> 1), toset |-> {[b |-> <<>>, s |-> "ts_threshold", t |-> "s"], [b |-> <<>>, s |-> "epoch_threshold", t |-> "s"], [b |-> <<0>>, s |-> "", t |-> "i"], [b |-> <<1>>, s |-> "", t |-> "i"], [b |-> <<2>>, s |-> "", t |-> "i"], [b |-> <<3>>, s |-> "", t |-> "i"], [b |-> <<4>>, s |-> "", t |-> "i"], [b |-> <<5>>, s |-> "", t |-> "i"], [b |-> <<6>>, s |-> "", t |-> "i"], [b |-> <<7>>, s |-> "", t |-> "i"], [b |-> <<8>>, s |-> "", t |-> "i"], [b |-> <<9>>, s |-> "", t |-> "i"], [b |-> <<10>>, s |-> "", t |-> "i"]}, nsig |-> 0, contracts |-> {}, nct |-> 0, forks |-> <<>>, flags |-> <<>>, bc0 |-> <<>>], stack |-> <<<<11>>>>, exc |-> "none", ret |-> FALSE, obs |-> [hist |-> <<<<1, 1, 0, 2>>>>, plug |-> 0, last |-> <<1, 0, 2>>], tapes |-> <<[plug |-> TRUE, pc |-> 2, code |-> <<2, 11>>, fid |-> 1, did |-> 1, cnt |-> 0, contr |-> TRUE]>>, frames |-> <<>>, sidx |-> 1, fheap |-> <<([b |-> <<>>, s |-> "ts_threshold", t |-> "s"] :> 60 @@ [b |-> <<>>, s |-> "epoch_threshold", t |-> "s"] :> 60 @@ [b |-> <<0>>, s |-> "", t |-> "i"] :> 1 @@ [b |-> <<1>>, s |-> "", t |-> "i"] :> 1 @@ [b |-> <<2>>, s |-> "", t |-> "i"] :> 1 @@ [b |-> <<3>>, s |-> "", t |-> "i"] :> 1 @@ [b |-> <<4>>, s |-> "", t |-> "i"] :> 1 @@ [b |-> <<5>>, s |-> "", t |-> "i"] :> 1 @@ [b |-> <<6>>, s |-> "", t |-> "i"] :> 1 @@ [b |-> <<7>>, s |-> "", t |-> "i"] :> 1 @@ [b |-> <<8>>, s |-> "", t |-> "i"] :> 1 @@ [b |-> <<9>>, s |-> "", t |-> "i"] :> 1 @@ [b |-> <<10>>, s |-> "", t |-> "i"] :> 1)>>, dheap |-> <<<<>>>>, r |-> <<>>, p |-> <<>>, lastexc |-> "none"]])
    >>
----


=============================================================================

---- CONFIG TapeVMMC_TTrace_1790380330 ----
CONSTANTS
    Family = "ctl"
    Bound = 1
    Shard = 0
    NShards = 1
    Emit = FALSE

INVARIANT
    _inv

CHECK_DEADLOCK
    \* CHECK_DEADLOCK off because of PROPERTY or INVARIANT above.
    FALSE

INIT
    _init

NEXT
    _next

CONSTANT
    _TETrace <- _trace

ALIAS
    _expression
=============================================================================
\* Generated on Fri Sep 25 23:53:14 UTC 2026