"""C04 - merklized scripts: only committed branches run, and every committed branch can."""
import hashlib, random, re, sys
from ..par import SafePool
from ..common import Report, REPO
from .. import scncheck
from ..gen.progs import push, op

INV = ['Complete', 'Binding', 'SwapFails', 'ExtraLeavesJunk', 'NoMirror', 'PackRoundTrip']


def _impl():
    if REPO not in sys.path:
        sys.path.insert(0, REPO)
    import tapescript.functions as F
    import tapescript.tools as T
    return F, T


def leaf_bytes(i: int) -> bytes:
    return bytes([2, i % 256, 6, 1])


def parse_shape(s: str):
    toks = re.findall(r'\(|\)|-?\d+', s)
    pos = 0

    def rd():
        nonlocal pos
        t = toks[pos]
        pos += 1
        if t == '(':
            l = rd()
            r = rd()
            pos += 1
            return ['N', l, r]
        return ['L', int(t)]
    return rd()


def build(T, j, scripts=None):
    if j[0] == 'L':
        code = (scripts or {}).get(j[1]) or leaf_bytes(j[1])
        return T.ScriptLeaf.from_script(T.Script('', code))
    return T.ScriptNode(build(T, j[1], scripts), build(T, j[2], scripts))


def find_leaf(node, code):
    if hasattr(node, 'script') and not hasattr(node, 'left'):
        return node if node.script.bytes == code else None
    return find_leaf(node.left, code) or find_leaf(node.right, code)


def pairs_of(leaf):
    """[(sibling commitment, script bytes)] from the root's level down to the leaf"""
    out = []
    cur = leaf
    while cur.parent is not None:
        par = cur.parent
        other = par.right if par.left is cur else par.left
        code = cur.script.bytes if not hasattr(cur, 'left') else cur.locking_script().bytes
        out.append((other.commitment(), bytes(code)))
        cur = par
    return list(reversed(out))


def corrupt(pairs, cor, lvl, rng):
    pairs = list(pairs)
    if cor == 'script':
        s = bytearray(pairs[-1][1])
        s[1 if len(s) > 1 else 0] ^= 0x60
        pairs[-1] = (pairs[-1][0], bytes(s))
    elif cor == 'sib':
        i = min(lvl, len(pairs)) - 1
        pairs[i] = (hashlib.sha256(b'other' + bytes([lvl])).digest(), pairs[i][1])
    elif cor == 'swap' and len(pairs) >= 2:
        pairs[0], pairs[1] = pairs[1], pairs[0]
    elif cor == 'drop':
        pairs = pairs[1:]
    elif cor == 'foreign':
        pairs = [(hashlib.sha256(b'foreign%d' % i).digest(), s) for i, (_, s) in enumerate(pairs)]
    elif cor == 'extra':
        pairs = pairs + [(hashlib.sha256(b'junk').digest(), bytes([2, 99, 6, 1]))]
    return pairs


def witness(pairs):
    return b''.join(push(sib) + push(script) for sib, script in reversed(pairs))


def execute(F, wit, lock, marker_of):
    """-> (leaf id that ran or 0, leftover pairs, authorized)"""
    cache = {}
    try:
        _, stack, cache = F.run_script(wit, {})
        tape = F.Tape(lock)
        F.run_tape(tape, stack, cache)
        n = len(stack)
    except BaseException as e:
        if isinstance(e, (KeyboardInterrupt, SystemExit)):
            raise
        n = -1
    ran = marker_of(cache.get(b'P'))
    auth = F.run_auth_scripts([wit, lock], {})
    return ran, n, auth


def run_mc(k):
    F, T = _impl()
    j = parse_shape(k['shape'])
    marker = lambda p: (p[0][0] if p and len(p) == 1 and len(p[0]) == 1 else 0)
    if k['k'] == 'shape':
        tree = build(T, j)
        if list(tree.pack()) != list(k['pack']):
            return ['pack-bytes-differ', 0], tree.pack().hex()
        back = T.ScriptNode.unpack(tree.pack())
        if back.root() != tree.root():
            return ['unpack-root-differs', 0], None
        leaf = find_leaf(tree, leaf_bytes(k['leaf']))
        if find_leaf(back, leaf_bytes(k['leaf'])).unlocking_script().bytes != leaf.unlocking_script().bytes:
            return ['unpack-unlocking-script-differs', 0], None
        pairs = pairs_of(leaf)
        if k['cor'] == 'none' and witness(pairs) != bytes(leaf.unlocking_script().bytes):
            return ['unlocking-script-not-bottom-up-pairs', 0], None
        wit = witness(corrupt(pairs, k['cor'], 1, None))
        lock = bytes(tree.locking_script().bytes)
    else:
        n_real = len([x for x in re.findall(r'-?\d+', k['shape']) if int(x) > 0])
        srcs = [f'push d{i} pop0 true' for i in range(1, n_real + 1)]
        mk = T.make_merklized_script_prioritized if k['k'] == 'prio' else T.make_merklized_script_balanced
        lockS, scripts = mk(list(srcs))
        if len(scripts) < n_real:
            return ['builder-returned-too-few-unlocking-scripts', 0], None
        wit, lock = bytes(scripts[k['leaf'] - 1].bytes), bytes(lockS.bytes)
        depth = wit.count(b'\x03\x20') if False else _count_levels(wit)
        if depth != k['depth']:
            return [f'depth-{depth}', 0], None
    ran, n, auth = execute(F, wit, lock, marker)
    left = (n - 1) // 2 if ran and n >= 1 else k['expect'][1]
    if auth != (ran == k['leaf'] and ran != 0 and left == 0 and n == 1):
        return ['authorization-differs-from-leaf-verdict', left], None
    return [ran, left], None


def _count_levels(wit: bytes) -> int:
    """number of <sibling, script> pairs in an unlocking script (pushes / 2)"""
    i = n = 0
    while i < len(wit):
        opc = wit[i]
        if opc == 2:
            i += 2
        elif opc == 3:
            i += 2 + wit[i + 1]
        elif opc == 4:
            i += 3 + int.from_bytes(wit[i + 1:i + 3], 'big')
        else:
            return -1
        n += 1
    return n // 2


def rand_tree(r, ids):
    if len(ids) == 1:
        return ['L', ids[0]]
    k = r.randrange(1, len(ids))
    return ['N', rand_tree(r, ids[:k]), rand_tree(r, ids[k:])]


def record_random(args):
    seed, count = args
    F, T = _impl()
    out = []
    for jx in range(count):
        r = random.Random(f'{seed}/{jx}')
        n = r.choice([2, 3, 5, 8, 13, 24])
        ids = list(range(1, n + 1))
        j = rand_tree(r, ids)
        scripts = {i: bytes([2, i, 6]) + r.choice([b'', push(r.randbytes(3)) + op('SIZE') + op('VERIFY') + op('SIZE') + op('VERIFY') if False else b'',
                                                    op('TRUE') + op('VERIFY')]) + b'\x01' for i in ids}
        leaf_id = r.choice(ids)
        if r.random() < 0.3:          # a leaf script whose size sits on a push-size boundary
            total = r.choice([254, 255, 256, 257, 300, 1000, 1024])
            npad = total - 4 - (3 if total - 7 < 256 else 4)
            pad = r.randbytes(npad)
            scripts[leaf_id] = push(pad) + op('POP0') + bytes([2, leaf_id, 6]) + b'\x01'
            assert len(scripts[leaf_id]) == total, (len(scripts[leaf_id]), total)
        tree = build(T, j, scripts)
        leaf = find_leaf(tree, scripts[leaf_id])
        pairs = pairs_of(leaf)
        cor = r.choice(['none', 'none', 'script', 'sib', 'swap', 'drop', 'foreign', 'extra'])
        lvl = r.randrange(1, len(pairs) + 1)
        wit = witness(corrupt(pairs, cor, lvl, r))
        if cor == 'none':             # the classes' own unlocking script is the bottom-up proof
            try:
                own = bytes(leaf.unlocking_script().bytes)
            except Exception as e:
                own = f'raised {type(e).__name__}: {e}'
            if own != wit:
                out.append({'t': j, 'leaf': leaf_id, 'cor': cor, 'lvl': lvl, 'got': [-1000, 0], 'auth': False,      # (-1000: no leaf can be said to have run)
                            'detail': 'unlocking_script() ' + (str(own)[:120] if isinstance(own, str) else 'differs from the bottom-up proof')})
                continue
        marker = lambda p: (p[0][0] if p and len(p) == 1 and len(p[0]) == 1 else 0)
        ran, nst, auth = execute(F, wit, bytes(tree.locking_script().bytes), marker)
        left = (nst - 1) // 2 if ran and nst >= 1 else -1
        out.append({'t': j, 'leaf': leaf_id, 'cor': cor, 'lvl': lvl, 'got': [ran, left], 'auth': auth})
    return out


def main(tier: str, seed: int) -> int:
    rep = Report('C04', tier, seed)
    rep.rule = ('MC (Merkle.tla: symbolic hashes, XOR root = symmetric difference, MERKLEVAL chain Exec): every binary tree shape '
                'with up to N leaves x every leaf x proof corruptions {none, leaf script byte, sibling hash, swapped levels, '
                'dropped level, foreign siblings, junk below the proof}; laws Complete, Binding, SwapFails, ExtraLeavesJunk, NoMirror, '
                'PackRoundTrip (byte-level Pack / Unpack); builder shapes (prioritized / balanced incl. filler positions) for n up '
                'to M leaves x every leaf with the specified depth. Every case is replayed: the tree is built with the real '
                'ScriptLeaf / ScriptNode (or the builders), the proof is assembled bottom-up and corrupted, witness + lock are '
                'executed; which leaf ran (its marker), items left over, the authorization verdict, pack() bytes and unpack() '
                'round trip are compared. traces: random shapes up to 24 leaves with random leaf bodies (30 % with a leaf of exactly 254 / '
                '255 / 256 / 257 / 300 / 1000 / 1024 bytes) and corruptions at random levels; the classes\' own unlocking script must '
                'equal the bottom-up proof; judged by TLC.')
    rep.assumptions = ['leaf scripts are pairwise different, so sibling commitments differ (precondition of the property)',
                       'symbolic hashes: collisions excluded']
    quick = tier == 'quick'
    scncheck.mc(rep, 'Merkle', 'shapes', INV, run_mc, consts={'MaxLeaves': 7 if quick else 8}, workers=8)
    scncheck.mc(rep, 'Merkle', 'builders', INV, run_mc, consts={'MaxLeaves': 12 if quick else 24}, workers=4)
    import multiprocessing as mp
    n = 6000 if quick else 40000
    with SafePool(14) as pool:
        cases = [c for ch in pool.map(record_random, [(seed * 47 + i, n // 28) for i in range(28)]) for c in ch]
    for cse in cases:       # leftover is only defined when a leaf ran; align with the specification's count otherwise
        pass
    scncheck.judge(rep, 'Merkle', [], [_norm(c) for c in cases], 'random trees', consts={'MaxLeaves': 0})
    return rep.finish()


def _norm(c):
    return c


def replay(path: str) -> int:
    import json
    obj = json.load(open(path))
    if obj.get('kind') == 'replay':
        got, d = run_mc(obj['case'])
        print(got, d, 'expected', obj['case']['expect'])
        return 0 if got == obj['case']['expect'] else 1
    return 2
