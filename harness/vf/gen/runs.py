"""Random run configurations (cache, limits, flags, plugins, contracts) + programs."""
from __future__ import annotations
import random
from .progs import Gen, InvokeContract
from ..ref import ed25519 as E

NOW = 1_700_000_000


def make_sc(r: random.Random) -> dict:
    sc = {}
    for i in range(1, 9):
        if r.random() < 0.4:
            sc[f'sigfield{i}'] = r.randbytes(r.choice([0, 1, 3, 8, 32]))
    c = r.random()
    if c < 0.6:
        sc['timestamp'] = NOW + r.choice([-100000, -60, -1, 0, 1, 59, 60, 61, 100000])
    elif c < 0.7:
        sc['timestamp'] = r.choice([b'bytes', 'str', 1.5])
    if r.random() < 0.3:
        sc[r.choice(['note', 'memo', 'sigfield9'])] = r.choice([b'\x01\x02', 'text', 7, -300, 2 ** 70, 1.5, None, True])
    return sc


def make_bc0(r: random.Random) -> dict:
    bc = {}
    if r.random() < 0.3:
        for _ in range(r.randrange(1, 3)):
            k = r.choice([b'a', b'k', b'P', b'sigfield1', b'timestamp', b'E'])
            bc[k] = [r.randbytes(r.randrange(0, 4)) for _ in range(r.randrange(0, 3))] if r.random() < 0.8 \
                else r.randbytes(3)
    return bc


def make_limits(r: random.Random):
    c = r.random()
    if c < 0.6:
        return 1024, 1024, 128
    if c < 0.8:
        return r.choice([1, 2, 3, 5, 8, 16]), r.choice([1, 4, 32, 33, 64, 65, 300]), r.choice([1, 2, 3, 5])
    return r.randrange(1, 40), r.randrange(1, 400), r.randrange(1, 12)


def make_flags(r: random.Random) -> dict:
    fl = {}
    if r.random() < 0.4:
        for _ in range(r.randrange(1, 4)):
            k = r.choice([0, 1, 2, 3, 4, 5, 6, 7, 8, 9, 10, 'ts_threshold', 'epoch_threshold', 'eval_return',
                          'disallow_OP_EVAL'])
            if k == 'ts_threshold':
                fl[k] = r.choice([0, -1, 1, 60, 120])
            elif k == 'epoch_threshold':
                fl[k] = r.choice([0, 1, 60, 120])
            elif k == 'disallow_OP_EVAL':
                if r.random() < 0.3:
                    fl[k] = True
            else:
                fl[k] = r.choice([True, False])
    return fl


class SigExt:
    """counting signature-extension plugin"""
    def __init__(self):
        self.n = 0

    def __call__(self, tape, stack, cache):
        self.n += 1


def make_run(seed: int, max_depth: int = 4, auth_ratio: float = 0.3, n_hi: int = 8):
    r = random.Random(seed)
    seeds = [bytes([i + 1]) * 32 for i in range(3)] + [r.randbytes(32)]
    sc = make_sc(r)
    bc0 = make_bc0(r)
    mi, ms, cl = make_limits(r)
    contracts = {b'c1': InvokeContract(b'c1')}
    if r.random() < 0.3:
        contracts[b'c2' * 16] = InvokeContract(b'c2')
    nsig = r.choice([0, 0, 1, 2])
    plugins = {'signature_extensions': [SigExt() for _ in range(nsig)]} if nsig else {}
    g = Gen(r, {'timestamp': NOW, **sc}, seeds, max_depth=max_depth, contracts=contracts)
    auth = r.random() < auth_ratio
    if auth:
        scripts = [g.program(0, max(2, n_hi // 2)) for _ in range(r.choice([1, 2, 2, 3, 4]))]
        flags = {}
    else:
        scripts = [g.program(1, n_hi)]
        flags = make_flags(r)
    return dict(scripts=scripts, cache_vals={**sc, **bc0}, auth=auth, contracts=contracts, plugins=plugins,
                additional_flags=flags, max_items=mi, max_item_size=ms, callstack_limit=cl, nsig=nsig)


# ----------------------------------------------------------------------------- C01
def make_auth_adv(seed: int):
    """Structured <witness.., lock> lists: the lock is a generated lock with control flow
    followed by checks; witnesses come from an adversarial family (early RETURN at every
    nesting depth, DEF shadowing the handles the lock calls, cache pre-writes of the keys
    the lock reads, junk below the expected items, call-budget exhaustion)."""
    from .progs import push, op, block, b1, u16, OP
    r = random.Random(seed ^ 0xC01)
    seeds = [bytes([i + 1]) * 32 for i in range(3)]
    sc = make_sc(r)
    g = Gen(r, {'timestamp': NOW, **sc}, seeds, max_depth=3, illtyped=0.03)
    secret = r.randbytes(r.choice([1, 4]))

    def ret_at(depth):
        b = op('RETURN')
        for _ in range(depth):
            c = r.randrange(6)
            if c == 0:
                b = op('TRUE') + block('IF', b)
            elif c == 1:
                b = op('FALSE') + block('IF_ELSE', g.body(2, 0, 1), b)
            elif c == 2:
                b = block('TRY_EXCEPT', b, b'')
            elif c == 3:
                b = block('TRY_EXCEPT', op('FALSE') + op('VERIFY'), b)
            elif c == 4:
                b = op('TRUE') + block('LOOP', b)
            else:
                b = push(b) + op('EVAL')
        return b

    def witness():
        parts = []
        for _ in range(r.randrange(0, 4)):
            c = r.randrange(9)
            if c == 0:
                parts.append(push(secret))
            elif c == 1:
                parts.append(ret_at(r.randrange(0, 4)))
            elif c == 2:
                h = r.randrange(0, 3)
                parts.append(op('DEF', b1(h), u16(2), op('TRUE') + op('RETURN')))
            elif c == 3:
                k = r.choice([b'k', b'a', b'P'])
                parts.append(push(secret) + op('WRITE_CACHE', b1(len(k)), k, b1(1)))
            elif c == 4:
                # junk below the expected items, zero-length junk included
                parts.append(r.choice([push(r.randbytes(2)), op('PUSH1', b1(0))]) * r.randrange(1, 3))
            elif c == 5:
                h = r.randrange(0, 3)
                body = op('CALL', b1(h))
                parts.append(op('DEF', b1(h), u16(len(body)), body) + block('TRY_EXCEPT', op('CALL', b1(h)), b''))
            elif c == 6:
                parts.append(op('TRUE'))
            elif c == 7:
                parts.append(g.snippet(1))
            else:
                parts.append(push(secret) + ret_at(r.randrange(0, 3)))
        return b''.join(parts)

    def lock():
        head = b''
        for _ in range(r.randrange(0, 3)):
            c = r.randrange(8)
            if c == 0:
                head += op('TRUE') + block('IF', g.body(2, 0, 1))
            elif c == 1:
                head += block('TRY_EXCEPT', g.body(2, 0, 1), b'')
            elif c == 2:
                h = r.randrange(0, 3)
                head += op('DEF', b1(h), u16(1), op('TRUE')) + op('CALL', b1(h)) + op('VERIFY')
            elif c == 3:
                head += op('CALL', b1(r.randrange(0, 3))) + op('VERIFY')
            elif c == 4:
                k = r.choice([b'k', b'a', b'P'])
                head += op('READ_CACHE_SIZE', b1(len(k)), k) + op('POP0')
            elif c == 5:
                head += op('FALSE') + block('IF_ELSE', b'', b'')
            elif c == 6:
                head += op('TRUE') + block('LOOP', op('POP0') + op('FALSE')) + op('POP0')
            else:
                head += push(op('TRUE') + op('VERIFY')) + op('EVAL')
        tail = push(secret) + op('EQUAL_VERIFY') + r.choice([op('TRUE'), op('TRUE') + op('TRUE'), b'', op('DEPTH') + op('NOT')])
        return head + tail

    scripts = [witness() for _ in range(r.choice([1, 1, 2, 3]))] + [lock()]
    mi, ms, cl = r.choice([(1024, 1024, 128), (1024, 1024, 128), (4, 64, 2), (2, 8, 1), (8, 33, 3)])
    cache_vals = {**sc, **make_bc0(r)}
    return dict(scripts=scripts, cache_vals=cache_vals, auth=True, contracts={}, plugins={},
                additional_flags={}, max_items=mi, max_item_size=ms, callstack_limit=cl, nsig=0)


def make_auth_random(seed: int):
    """1..4 random byte strings of 1..64 bytes as an authorization list."""
    r = random.Random(seed ^ 0xC0100)
    n = r.choice([1, 2, 2, 3, 4])
    alpha = list(range(0, 92)) * 2 + list(range(256))
    scripts = [bytes(r.choice(alpha) for _ in range(r.randrange(1, 65))) for _ in range(n)]
    mi, ms, cl = make_limits(r)
    return dict(scripts=scripts, cache_vals=make_sc(r), auth=True, contracts={}, plugins={},
                additional_flags={}, max_items=mi, max_item_size=ms, callstack_limit=cl, nsig=0)


# ----------------------------------------------------------------------------- C07
def make_hungry(seed: int):
    """Resource-hungry programs under small and realistic limit triples."""
    from .progs import push, op, block, b1, u16, OP, enc
    r = random.Random(seed ^ 0xC07)
    mi, ms, cl = r.choice([(1024, 1024, 128), (1024, 1024, 128)] +
                          [(r.randrange(1, 12), r.randrange(1, 70), r.randrange(1, 9)) for _ in range(4)])
    parts = []
    for _ in range(r.randrange(1, 6)):
        c = r.randrange(16)
        big = r.choice([ms - 1, ms, ms + 1, ms // 2 + 1, 255, 256, 65535])
        if c == 0:
            parts.append(push(r.randbytes(max(0, min(big, 70000)))))
        elif c == 1:
            parts.append(push(r.randbytes(r.randrange(0, 9))) + op('COPY', b1(r.choice([0, 1, 2, mi - 1, mi, 255]))))
        elif c == 2:     # doubling by CONCAT in a loop
            parts.append(push(b'\xaa' * r.randrange(1, 9)) + op('TRUE') + block('LOOP', op('POP0') + op('DUP') + op('CONCAT') + op('TRUE')))
        elif c == 3:     # unbounded push loop
            parts.append(op('TRUE') + block('LOOP', r.choice([op('TRUE'), op('DUP'), push(b'\x01\x02'), op('DEPTH') + op('NOT') + op('NOT')])))
        elif c == 4:     # self-recursive function
            h = r.randrange(3)
            body = r.choice([b'', op('TRUE'), op('TRUE') + block('IF', b'')]) + op('CALL', b1(h))
            parts.append(op('DEF', b1(h), u16(len(body)), body) + op('CALL', b1(h)))
        elif c == 5:     # self-reproducing EVAL
            s = op('DUP') + op('EVAL')
            parts.append(push(s) + s)
        elif c == 6:     # recursion through nested bodies
            h = r.randrange(3)
            inner = op('CALL', b1(h))
            for _ in range(r.randrange(1, 5)):
                inner = r.choice([op('TRUE') + block('IF', inner), block('TRY_EXCEPT', inner, b''),
                                  block('TRY_EXCEPT', op('FALSE') + op('VERIFY'), inner), op('TRUE') + block('LOOP', inner + op('FALSE')),
                                  op('TRUE') + block('IF_ELSE', inner, b'')])
            parts.append(op('DEF', b1(h), u16(len(inner)), inner) + op('CALL', b1(h)))
        elif c == 7:
            parts.append(push(enc(r.choice([-1, 0, ms - 1, ms, ms + 1, 70000, 300_000_000, 2 ** 40, -2 ** 40]))) + op('RANDOM'))
        elif c == 8:
            parts.append(push(r.randbytes(3)) + op('SHAKE256', b1(r.choice([0, 1, ms, min(ms + 1, 255), 255]))))
        elif c == 9:     # multi-item cache key read repeatedly
            n = r.randrange(0, 5)
            parts.append(b''.join(push(r.randbytes(2)) for _ in range(n)) + op('WRITE_CACHE', b'\x01k', b1(n))
                         + op('READ_CACHE', b'\x01k') * r.randrange(1, 4))
        elif c == 10:
            parts.append(op(r.choice(['REVERSE']), b1(r.choice([0, 1, 2, mi, 255]))) if r.random() < 0.5
                         else op('SWAP', b1(r.choice([0, 1, mi, 255])), b1(r.choice([0, 2, 254]))))
        elif c == 11:    # truncated operands
            parts.append(r.choice([b1(OP['PUSH1']) + b'\x7f\x01', b1(OP['PUSH2']) + b'\xff\xff\x00', b1(OP['IF']) + b'\xff',
                                   b1(OP['LOOP']) + b'\x00\x09\x01', b1(OP['DEF']) + b'\x01\x80\x00', b1(OP['MERKLEVAL']) + b'\x00' * 5,
                                   b1(OP['WRITE_CACHE']) + b'\x02k']))
        elif c == 12:    # nested loops
            parts.append(op('TRUE') + block('LOOP', op('TRUE') + block('LOOP', op('POP0') + op('FALSE')) + op('POP0')))
        elif c == 13:
            n = r.choice([0, 1, 2, 255])
            parts.append(b''.join(push(enc(r.randrange(-300, 300))) for _ in range(min(n, 3))) + op(r.choice(['ADD_INTS', 'MULT_INTS']), b1(n)))
        elif c == 14:
            parts.append(push(enc(2 ** r.choice([100, 1000, 4000, 8100]))) + op('DUP') + op('MULT_INTS', b'\x02'))
        else:
            parts.append(op('POP1', b1(r.choice([0, 1, 255]))) + b1(r.randrange(92, 256)) + b1(r.choice([0, 1, 127, 128, 255])))
    auth = r.random() < 0.3
    return dict(scripts=[b''.join(parts)], cache_vals={}, auth=auth, contracts={}, plugins={},
                additional_flags={}, max_items=mi, max_item_size=ms, callstack_limit=cl, nsig=0)


# ----------------------------------------------------------------------------- C08
def make_cachey(seed: int):
    """Programs biased to cache-writing instructions with keys that spell the protected
    string names in every encoding; every writer flag on; embedder values of all types."""
    from .progs import push, op, block, b1, u16, OP
    r = random.Random(seed ^ 0xC08)
    seeds = [bytes([i + 1]) * 32 for i in range(3)]
    sc = {f'sigfield{i}': r.randbytes(r.choice([1, 8, 32])) for i in range(1, 9) if r.random() < 0.7}
    for k in list(sc):                 # mutable embedder values: aliasing into the stack would let ops edit them
        if r.random() < 0.15:
            sc[k] = bytearray(sc[k])
    sc['timestamp'] = NOW + r.choice([0, 5, -5])
    if r.random() < 0.1:               # falsy / tiny embedder timestamps are values like any other
        sc['timestamp'] = r.choice([0, 0, 1, -1])
    elif r.random() < 0.2:             # a timestamp of another type: the time checks must fail without touching it
        sc['timestamp'] = r.choice([float(NOW), NOW + 0.75, str(NOW), NOW.to_bytes(4, 'big'), bytearray(NOW.to_bytes(4, 'big')), [NOW]])
    for k, v in [('note', b'\x01'), ('memo', 'text'), ('n', 7), ('f', 1.5), ('lst', [b'a', b'b']), ('E', b'e'), ('P', b'p'),
                 ('x', b'x'), ('IR', b'ir'), ('s', b's')]:
        if r.random() < 0.4:
            sc[k] = v
    names = [k.encode() for k in sc] + [b'returned', b'timestamp\x00', b' sigfield1', b'SIGFIELD1', b'sigfield1 ', b'']
    g = Gen(r, sc, seeds, max_depth=3, illtyped=0.03, contracts={b'c1': InvokeContract(b'c1')})
    g.key = lambda: r.choice(names)
    parts = []
    for _ in range(r.randrange(2, 9)):
        c = r.random()
        if c < 0.45:
            parts.append(g.s_cache(0))
        elif c < 0.55:
            parts.append(push(r.randbytes(3)) + op('POP0') if r.random() < 0.5 else push(b'a') + push(b'b') + op('POP1', b'\x02'))
        elif c < 0.65:
            parts.append(block('TRY_EXCEPT', r.choice([op('FALSE') + op('VERIFY'), g.s_cache(1), op('CALL', b'\x09')]), g.s_cache(1)))
        elif c < 0.7:      # read an embedder value and combine it in place with a longer operand
            k = r.choice([x for x in sc if isinstance(x, str)]).encode()
            parts.append(op('GET_VALUE', b1(len(k)), k) + push(r.randbytes(40)) + op(r.choice(['XOR', 'OR', 'AND', 'CONCAT']))
                         + op('GET_MESSAGE', b'\x00'))
        elif c < 0.8:
            parts.append(r.choice([g.s_curve, g.s_adapter, g.s_sig, g.s_invoke, g.s_getvalue, g.s_template, g.s_time])(0))
        elif c < 0.9:
            parts.append(r.choice([g.s_if, g.s_defcall, g.s_eval, g.s_loop])(1))
        else:
            parts.append(g.snippet(1))
    if not isinstance(sc['timestamp'], int):       # reach a time check early, inside a TRY so that the run goes on
        parts.insert(r.randrange(0, 2), block('TRY_EXCEPT', g.s_time(1), b''))
    bc0 = {k: [r.randbytes(2)] for k in names if k and r.random() < 0.2}
    auth = r.random() < 0.3
    scripts = [b''.join(parts)]
    if auth and r.random() < 0.5:
        scripts.append(g.s_cache(0) + op('TRUE'))
    return dict(scripts=scripts, cache_vals={**sc, **bc0}, auth=auth, contracts=g.contracts, plugins={},
                additional_flags={} if auth else {i: True for i in range(11)},
                max_items=1024, max_item_size=1024, callstack_limit=128, nsig=0)


def make_reserved_key(seed: int):
    """Initial caches that contain the interpreter's own string key (finding F12)."""
    kw = make_cachey(seed)
    r = random.Random(seed ^ 0xF12)
    kw['cache_vals'] = {**kw['cache_vals'], 'returned': r.choice([b'e', True, 1, 'x'])}
    return kw


# ----------------------------------------------------------------------------- C20
def make_forked(seed: int):
    """Programs that use unassigned opcodes, run with a soft-fork op installed at some of them."""
    from .progs import push, op, block, b1, u16, OP
    from ..softfork import KINDS
    r = random.Random(seed ^ 0xC20)
    kw = make_run(seed ^ 0x20C20, max_depth=3, n_hi=5)
    codes = r.sample(range(92, 256), r.choice([1, 1, 2, 3]))
    forks = {c: r.choice(KINDS) for c in codes}
    g = Gen(r, {'timestamp': NOW}, [b'\x01' * 32], max_depth=3, illtyped=0.02)

    def fk():
        c = r.choice(codes + [r.randrange(92, 256)])
        n = r.choice([0, 1, 1, 2, 3])
        cnt = n if r.random() < 0.85 else r.choice([127, 128, 255])
        items = b''.join(push(r.choice([b'\xff', b'\x00', b'', b'\x01\x02', b'\x00\x00'])) for _ in range(n))
        return items + b1(c) + b1(cnt)

    def wrap(b):
        c = r.randrange(7)
        if c == 0:
            return op('TRUE') + block('IF', b)
        if c == 1:
            return block('TRY_EXCEPT', b, r.choice([b'', fk()]))
        if c == 2:
            return op('DEF', b'\x00', u16(len(b)), b) + op('CALL', b'\x00')
        if c == 3:
            return push(b) + op('EVAL')
        if c == 4:
            return op('TRUE') + block('LOOP', b + op('FALSE')) + op('POP0')
        return b

    extra = b''.join(wrap(fk()) if r.random() < 0.6 else g.snippet(1) for _ in range(r.randrange(1, 5)))
    kw['scripts'] = [s + extra for s in kw['scripts'][:-1]] + [extra + kw['scripts'][-1]] if r.random() < 0.5 \
        else kw['scripts'][:-1] + [kw['scripts'][-1] + extra]
    kw['forks'] = forks
    return kw


# ----------------------------------------------------------------------------- C10
def make_intops(seed: int):
    """Integer (and int <-> float) instructions on boundary and huge operands: 2^k + d on both sides of every byte
    boundary up to 8192 bits, random big integers, signed tape operands (negative, zero, padded), item lengths around
    2^7 / 2^8 for SIZE - so that 'integer instructions compute exact results at any magnitude' is judged instruction
    by instruction against the specification's limb arithmetic / reference integers."""
    from .progs import push, op, b1
    from ..ref.opsem import enc
    r = random.Random(seed ^ 0xC10)

    def big():
        c = r.random()
        if c < 0.4:
            k = r.choice([7, 8, 15, 16, 31, 32, 52, 53, 54, 55, 56, 63, 64, 65, 127, 128, 255, 256, 511, 512, 1023, 1024, 4095, 4096, 8000])
            return r.choice([1, -1]) * (2 ** k + r.randrange(-3, 4))
        if c < 0.7:
            return r.randrange(-2 ** 17, 2 ** 17)
        return r.choice([1, -1]) * r.getrandbits(r.randrange(1, 8100))

    def small_div():
        return r.choice([1, -1, 2, -2, 3, -3, 7, 10, -10, 127, 128, -128, -129, 255, 256, 0, 65535, -65536])

    def item(n):
        b = enc(n)
        if r.random() < 0.1:                       # a padded (non-minimal) encoding decodes to the same integer
            b = (b'\xff' if n < 0 else b'\x00') * r.randrange(1, 3) + b
        return push(b)

    parts = []
    for _ in range(r.randrange(1, 5)):
        kind = r.choice(['add', 'sub', 'mult', 'div', 'divs', 'mod', 'mods', 'size', 'less', 'leq', 'i2f', 'f2i', 'depth'])
        a, b = big(), big()
        if kind in ('add', 'sub', 'mult'):
            n = r.choice([2, 2, 3])
            parts.append(b''.join(item(big()) for _ in range(n)) + op({'add': 'ADD_INTS', 'sub': 'SUBTRACT_INTS', 'mult': 'MULT_INTS'}[kind], b1(n)))
        elif kind in ('div', 'mod'):
            d = enc(r.choice([small_div(), small_div(), big() >> r.randrange(0, 4000) or 1]))
            d = d if len(d) < 256 else enc(small_div())
            if r.random() < 0.1:
                d = (b'\xff' if d[0] >= 128 else b'\x00') + d
            parts.append(item(a) + op('DIV_INT' if kind == 'div' else 'MOD_INT', b1(len(d)), d))
        elif kind in ('divs', 'mods'):
            dv = r.choice([small_div(), big() >> r.randrange(0, 6000) or 1, big()])
            # OP_DIV_INTS: divisor first (top), then dividend - per the op reference
            parts.append(item(a) + item(dv) + op('DIV_INTS' if kind == 'divs' else 'MOD_INTS'))
        elif kind == 'size':
            parts.append(push(r.randbytes(r.choice([0, 1, 127, 128, 129, 200, 255, 256, 257, 1000]))) + op('SIZE')
                         + r.choice([b'', push(b'\x01') + op('ADD_INTS', b1(2)), item(100) + op('LESS')]))
        elif kind in ('less', 'leq'):
            if r.random() < 0.3:
                b = a + r.choice([-1, 0, 1])
            parts.append(item(a) + item(b) + op('LESS' if kind == 'less' else 'LESS_OR_EQUAL'))
        elif kind == 'i2f':
            parts.append(item(r.choice([a, r.randrange(-2 ** 25, 2 ** 25), 2 ** 24 + 1, 2 ** 127, 2 ** 128, -2 ** 128])) + op('INT_TO_FLOAT'))
        elif kind == 'f2i':
            import struct
            f = r.choice([0.0, -0.0, 1.5, -1.5, 2.0 ** 31, -2.0 ** 63, 3.4028234663852886e38, 1e-45, float('inf'), float('nan'), r.uniform(-1e9, 1e9)])
            parts.append(push(struct.pack('!f', f)) + op('FLOAT_TO_INT'))
        else:
            parts.append(op('DEPTH'))
        if r.random() < 0.5:
            parts.append(op('POP0'))
    ms = r.choice([1024, 1024, 1100, 2048, 32, 129])
    return dict(scripts=[b''.join(parts)], cache_vals={}, auth=False, contracts={}, plugins={}, additional_flags={},
                max_items=1024, max_item_size=ms, callstack_limit=128, nsig=0)
