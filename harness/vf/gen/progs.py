"""Seeded generator of bytecode programs over the full opcode table.

Independent of the repository's compiler: bytes are assembled here from the
documented encoding.  Programs are built from snippets "push the operands an
instruction needs, then the instruction" (well-typed, mostly run to the end),
mixed with ill-typed material (missing / malformed operands, truncated
instructions, random bytes), nested block constructs up to a depth bound and
boundary-biased values."""
from __future__ import annotations
import random, struct
from ..ref import ed25519 as E
from ..ref.opsem import enc, message

OP = {n: i for i, n in enumerate('''FALSE TRUE PUSH0 PUSH1 PUSH2 GET_MESSAGE POP0 POP1 SIZE WRITE_CACHE
READ_CACHE READ_CACHE_SIZE READ_CACHE_STACK READ_CACHE_STACK_SIZE ADD_INTS SUBTRACT_INTS MULT_INTS DIV_INT
DIV_INTS MOD_INT MOD_INTS ADD_FLOATS SUBTRACT_FLOATS DIV_FLOAT DIV_FLOATS MOD_FLOAT MOD_FLOATS ADD_POINTS
COPY DUP SHA256 SHAKE256 VERIFY EQUAL EQUAL_VERIFY CHECK_SIG CHECK_SIG_VERIFY CHECK_TIMESTAMP
CHECK_TIMESTAMP_VERIFY CHECK_EPOCH CHECK_EPOCH_VERIFY DEF CALL IF IF_ELSE EVAL NOT RANDOM RETURN SET_FLAG
UNSET_FLAG DEPTH SWAP SWAP2 REVERSE CONCAT SPLIT CONCAT_STR SPLIT_STR CHECK_TRANSFER MERKLEVAL TRY_EXCEPT
LESS LESS_OR_EQUAL GET_VALUE FLOAT_LESS FLOAT_LESS_OR_EQUAL INT_TO_FLOAT FLOAT_TO_INT LOOP CHECK_MULTISIG
CHECK_MULTISIG_VERIFY SIGN SIGN_STACK CHECK_SIG_STACK DERIVE_SCALAR CLAMP_SCALAR ADD_SCALARS
SUBTRACT_SCALARS DERIVE_POINT SUBTRACT_POINTS MAKE_ADAPTER_SIG_PUBLIC MAKE_ADAPTER_SIG_PRIVATE
CHECK_ADAPTER_SIG DECRYPT_ADAPTER_SIG INVOKE XOR OR AND CHECK_TEMPLATE CHECK_TEMPLATE_VERIFY TAPROOT'''.split())}
assert OP['TAPROOT'] == 91 and OP['LOOP'] == 69 and OP['RETURN'] == 48


def b1(n):
    return bytes([n & 255])


def u16(n):
    return n.to_bytes(2, 'big')


def push(b: bytes) -> bytes:
    if len(b) == 1:
        return b1(OP['PUSH0']) + b
    if len(b) < 256:
        return b1(OP['PUSH1']) + b1(len(b)) + b
    return b1(OP['PUSH2']) + u16(len(b)) + b


def block(op: str, *bodies: bytes) -> bytes:
    out = b1(OP[op])
    for b in bodies:
        out += u16(len(b)) + b
    return out


def op(name: str, *operands: bytes) -> bytes:
    return b1(OP[name]) + b''.join(operands)


class Gen:
    def __init__(self, rng: random.Random, sc: dict, seeds: list[bytes], max_depth: int = 4,
                 contracts: dict | None = None, illtyped: float = 0.12):
        self.r = rng
        self.sc = sc
        self.seeds = seeds
        self.max_depth = max_depth
        self.contracts = contracts or {}
        self.ill = illtyped
        self.handles = []

    # ---------------------------------------------------------------- values
    def small(self):
        return self.r.choice([0, 1, 2, 3, 4, 5, 7, 8, 16, 31, 32, 33])

    def intval(self):
        r = self.r
        c = r.random()
        if c < 0.35:
            return r.randrange(-5, 20)
        if c < 0.6:
            return r.choice([0, 1, -1, 127, 128, -128, -129, 255, 256, -256, 32767, 32768, -32768, 65535, 65536])
        if c < 0.85:
            k = r.choice([7, 8, 15, 16, 23, 24, 31, 32, 53, 54, 63, 64, 65, 127, 128, 255, 256])
            return r.choice([1, -1]) * (2 ** k + r.randrange(-3, 4))
        return r.randrange(-2 ** 70, 2 ** 70)

    def intbytes(self):
        b = enc(self.intval())
        if self.r.random() < 0.1:      # non-minimal encodings are legal inputs
            b = (b'\xff' if b[0] & 128 else b'\x00') * self.r.randrange(1, 3) + b
        return b

    def fbytes(self):
        r = self.r
        c = r.random()
        if c < 0.5:
            return struct.pack('!f', r.choice([0.0, 1.0, -1.0, 0.5, 2.0, 3.25, -7.5, 1e10, 1e-10, 123.456]))
        if c < 0.65:
            return r.choice([b'\x7f\x80\x00\x00', b'\xff\x80\x00\x00', b'\x7f\xc0\x00\x00', b'\x80\x00\x00\x00',
                             b'\x00\x00\x00\x01', b'\x7f\x7f\xff\xff', b'\x00\x80\x00\x00'])
        return r.randbytes(4)

    def blob(self, lo=0, hi=40):
        r = self.r
        n = r.choice([lo, lo + 1, hi]) if r.random() < 0.2 else r.randrange(lo, hi + 1)
        if r.random() < 0.3:
            return bytes([r.choice([0, 255, 1, 128])]) * n
        return r.randbytes(n)

    def utf8(self):
        r = self.r
        s = ''.join(r.choice(['a', 'b', 'Z', ' ', 'é', 'ß', '日', '本', '𝄞', 'ࠀ', '￿', '0'])
                    for _ in range(r.randrange(0, 8)))
        b = s.encode('utf-8')
        if r.random() < 0.15:
            b = b + r.choice([b'\xff', b'\xc0\x80', b'\xed\xa0\x80', b'\xe2\x82', b'\xf4\x90\x80\x80', b'\x80'])
        return b

    def key(self):
        r = self.r
        c = r.random()
        if c < 0.5:
            return r.choice([b'a', b'k', b'P', b'E', b'x', b'X', b's', b'sa', b'R', b'T', b't', b'RT', b'IR', b'r'])
        if c < 0.8:
            return r.choice([b'sigfield1', b'sigfield2', b'sigfield8', b'timestamp', b'returned', b'', b'sigfield1\x00'])
        return self.blob(0, 6)

    def seed(self):
        return self.r.choice(self.seeds)

    def scalar(self):
        r = self.r
        c = r.random()
        if c < 0.5:
            return E.derive_key_from_seed(self.seed())
        if c < 0.7:
            return E.clamp(r.randbytes(32))
        if c < 0.8:
            return r.choice([bytes(32), b'\x01' + bytes(31), E.sc_bytes(E.L - 1), b'\xff' * 32])
        return r.randbytes(32)

    def point(self):
        r = self.r
        c = r.random()
        if c < 0.7:
            return E.public_key(self.seed())
        if c < 0.85:
            return E.base_mult_noclamp(E.clamp(r.randbytes(32)))
        if c < 0.95:
            return r.randbytes(32)
        return r.choice([bytes(32), b'\x01' + bytes(31), r.randbytes(31)])

    def sigflag(self):
        return self.r.choice([0, 0, 0, 1, 2, 3, 128, 255, self.r.randrange(256)])

    def signature(self, seed, flag):
        sig = E.sign(seed, message(self.sc, flag))
        return sig + b1(flag) if flag else sig

    # ---------------------------------------------------------------- snippets
    def snippet(self, depth: int) -> bytes:
        r = self.r
        if r.random() < self.ill:
            return self.junk(depth)
        kinds = [
            (8, self.s_push), (5, self.s_stackop), (5, self.s_cache), (6, self.s_int), (3, self.s_float),
            (3, self.s_cmp), (3, self.s_bytes), (2, self.s_str), (2, self.s_hash), (3, self.s_sig),
            (1, self.s_multisig), (2, self.s_time), (2, self.s_curve), (2, self.s_adapter), (1, self.s_flag),
            (1, self.s_getvalue), (1, self.s_invoke), (1, self.s_transfer), (1, self.s_template), (2, self.s_nop), (1, self.s_random),
            (1, self.s_merkle), (1, self.s_taproot), (1, self.s_verify),
        ]
        if depth < self.max_depth:
            kinds += [(3, self.s_if), (2, self.s_ifelse), (3, self.s_try), (2, self.s_loop), (3, self.s_defcall),
                      (2, self.s_eval)]
        kinds += [(1, self.s_return), (1, self.s_call_existing)]
        tot = sum(w for w, _ in kinds)
        x = r.randrange(tot)
        for w, f in kinds:
            if x < w:
                return f(depth)
            x -= w
        return b''

    def body(self, depth: int, lo=0, hi=4) -> bytes:
        return b''.join(self.snippet(depth) for _ in range(self.r.randrange(lo, hi + 1)))

    def junk(self, depth):
        r = self.r
        c = r.random()
        if c < 0.3:      # bare instruction without its operands on the stack
            code = r.randrange(0, 92)
            return b1(code) + r.randbytes(r.choice([0, 1, 1, 2, 3]))
        if c < 0.5:
            return r.randbytes(r.randrange(1, 5))
        if c < 0.7:      # truncated push / block
            return r.choice([b1(OP['PUSH1']) + b1(r.randrange(1, 255)), b1(OP['PUSH2']) + b'\xff',
                             b1(OP['IF']) + b'\x00', b1(OP['DEF']) + b'\x00\x00\x09\x01',
                             b1(OP['TRY_EXCEPT']) + b'\x00\x01\x01\x00\x05'])
        if c < 0.85:
            return push(self.blob(0, 3)) + b1(r.randrange(0, 92))
        return b1(r.randrange(92, 256)) + b1(r.choice([0, 1, 2, 127, 128, 255]))

    def s_push(self, d):
        r = self.r
        c = r.random()
        if c < 0.2:
            return op(r.choice(['TRUE', 'FALSE']))
        if c < 0.5:
            return push(self.intbytes())
        if c < 0.6:
            return push(self.blob(250, 300))
        return push(self.blob())

    def s_stackop(self, d):
        r = self.r
        c = r.randrange(9)
        if c == 0:
            return push(self.blob()) + op('DUP')
        if c == 1:
            return push(self.blob()) + op('COPY', b1(self.small()))
        if c == 2:
            return push(self.blob()) + push(self.blob()) + op('SWAP2')
        if c == 3:
            return push(self.blob()) + push(self.blob()) + push(self.blob()) + op('SWAP', b1(r.randrange(4)), b1(r.randrange(4)))
        if c == 4:
            return push(self.blob()) + push(self.blob()) + op('REVERSE', b1(r.randrange(4)))
        if c == 5:
            return op('DEPTH')
        if c == 6:
            return push(self.blob()) + op('SIZE')
        if c == 7:
            return push(self.blob()) + op('POP0')
        return push(self.blob()) + push(self.blob()) + op('POP1', b1(r.randrange(4)))

    def s_cache(self, d):
        r = self.r
        k = self.key()
        c = r.randrange(6)
        n = r.randrange(0, 4)
        wr = b''.join(push(self.blob(0, 8)) for _ in range(n)) + op('WRITE_CACHE', b1(len(k)), k, b1(n))
        if c == 0:
            return wr
        if c == 1:
            return wr + op('READ_CACHE', b1(len(k)), k)
        if c == 2:
            return (wr if r.random() < 0.7 else b'') + op('READ_CACHE_SIZE', b1(len(k)), k)
        if c == 3:
            return (wr if r.random() < 0.7 else b'') + push(k) + op('READ_CACHE_STACK')
        if c == 4:
            return (wr if r.random() < 0.7 else b'') + push(k) + op('READ_CACHE_STACK_SIZE')
        return op('READ_CACHE', b1(len(k)), k)

    def s_int(self, d):
        r = self.r
        c = r.randrange(8)
        n = r.choice([0, 1, 2, 2, 2, 3, 4])
        ints = b''.join(push(self.intbytes()) for _ in range(n))
        if c == 0:
            return ints + op('ADD_INTS', b1(n))
        if c == 1:
            return ints + op('SUBTRACT_INTS', b1(n))
        if c == 2:
            return ints + op('MULT_INTS', b1(n))
        dv = self.intbytes() if r.random() < 0.9 else r.choice([b'\x00', b''])
        if c == 3:
            return push(self.intbytes()) + op('DIV_INT', b1(len(dv)), dv)
        if c == 4:
            return push(self.intbytes()) + op('MOD_INT', b1(len(dv)), dv)
        if c == 5:
            return push(dv if dv else b'\x00') + push(self.intbytes()) + op('DIV_INTS')
        if c == 6:
            return push(dv if dv else b'\x00') + push(self.intbytes()) + op('MOD_INTS')
        return push(self.intbytes()) + op('INT_TO_FLOAT')

    def s_float(self, d):
        r = self.r
        c = r.randrange(8)
        n = r.choice([0, 1, 2, 2, 3])
        fl = b''.join(push(self.fbytes()) for _ in range(n))
        if c == 0:
            return fl + op('ADD_FLOATS', b1(n))
        if c == 1:
            return fl + op('SUBTRACT_FLOATS', b1(n))
        if c == 2:
            return push(self.fbytes()) + op('DIV_FLOAT', self.fbytes())
        if c == 3:
            return push(self.fbytes()) + push(self.fbytes()) + op('DIV_FLOATS')
        if c == 4:
            return push(self.fbytes()) + op('MOD_FLOAT', self.fbytes())
        if c == 5:
            return push(self.fbytes()) + push(self.fbytes()) + op('MOD_FLOATS')
        if c == 6:
            return push(self.fbytes()) + op('FLOAT_TO_INT')
        return push(self.fbytes()) + push(self.fbytes()) + op(r.choice(['FLOAT_LESS', 'FLOAT_LESS_OR_EQUAL']))

    def s_cmp(self, d):
        r = self.r
        c = r.randrange(4)
        if c == 0:
            a = self.blob(0, 5)
            b = a if r.random() < 0.5 else self.blob(0, 5)
            return push(a) + push(b) + op('EQUAL')
        if c == 1:
            a = self.intbytes()
            b = a if r.random() < 0.3 else self.intbytes()
            return push(a) + push(b) + op(r.choice(['LESS', 'LESS_OR_EQUAL']))
        if c == 2:
            return push(self.blob(0, 4)) + op('NOT')
        return push(self.blob(0, 6)) + push(self.blob(0, 6)) + op(r.choice(['XOR', 'OR', 'AND']))

    def s_bytes(self, d):
        r = self.r
        if r.random() < 0.5:
            return push(self.blob(0, 10)) + push(self.blob(0, 10)) + op('CONCAT')
        item = self.blob(0, 10)
        idx = r.choice([0, 1, len(item) - 1, len(item), len(item) + 1, -1, r.randrange(0, 12)])
        return push(item) + push(enc(idx)) + op('SPLIT')

    def s_str(self, d):
        r = self.r
        if r.random() < 0.5:
            return push(self.utf8()) + push(self.utf8()) + op('CONCAT_STR')
        item = self.utf8()
        idx = r.choice([0, 1, 2, 3, 5, -1, len(item), r.randrange(0, 10)])
        return push(item) + push(enc(idx)) + op('SPLIT_STR')

    def s_hash(self, d):
        r = self.r
        if r.random() < 0.5:
            return push(self.blob()) + op('SHA256')
        return push(self.blob()) + op('SHAKE256', b1(r.choice([0, 1, 20, 32, 64, 255])))

    def s_verify(self, d):
        r = self.r
        return push(r.choice([b'\x00', b'\x01', b'\xff', b'', b'\x00\x00', b'\x00\x01'])) + op('VERIFY')

    def s_sig(self, d):
        r = self.r
        seed = self.seed()
        flag = self.sigflag()
        allowed = r.choice([flag, 255, 0, flag | r.randrange(256), r.randrange(256)])
        c = r.randrange(7)
        if c == 0:      # sign then check
            return push(seed) + op('SIGN', b1(flag)) + push(E.public_key(seed)) + op(r.choice(['CHECK_SIG', 'CHECK_SIG_VERIFY']), b1(allowed))
        if c == 1:      # precomputed signature, maybe corrupted / wrong key
            sig = bytearray(self.signature(seed, flag))
            key = E.public_key(seed)
            m = r.random()
            if m < 0.2:
                sig[r.randrange(len(sig))] ^= 1 << r.randrange(8)
            elif m < 0.3:
                key = E.public_key(self.seed())
            elif m < 0.4:
                sig = sig[:r.choice([0, 63, 66])] if r.random() < 0.5 else sig + b'\x00\x00'
            elif m < 0.45:
                key = key[:31]
            return push(bytes(sig)) + push(key) + op('CHECK_SIG', b1(allowed))
        if c == 2:
            return op('GET_MESSAGE', b1(flag))
        if c == 3:
            msg = self.blob(0, 20)
            return push(msg) + push(seed) + op('SIGN_STACK') + push(msg if r.random() < 0.8 else self.blob(0, 20)) \
                + push(E.public_key(seed)) + op('CHECK_SIG_STACK')
        if c == 4:
            msg = self.blob(0, 20)
            sig = E.sign(seed, msg)
            return push(sig) + push(msg) + push(E.public_key(seed) if r.random() < 0.8 else self.point()) + op('CHECK_SIG_STACK')
        if c == 5:
            return push(self.blob(30, 33)) + op('SIGN', b1(flag))
        return push(seed) + op('SIGN', b1(flag))

    def s_multisig(self, d):
        r = self.r
        n = r.randrange(0, 4)
        m = r.randrange(0, n + 1) if r.random() < 0.9 else r.randrange(0, 4)
        seeds = [self.seed() for _ in range(n)]
        flag = self.sigflag() if r.random() < 0.3 else 0
        allowed = r.choice([flag, 255, 0])
        signers = [r.choice(seeds) if seeds and r.random() < 0.8 else self.seed() for _ in range(m)]
        if seeds and r.random() < 0.5:
            signers = r.sample(seeds, min(m, n)) + signers[min(m, n):]
        out = b''.join(push(self.signature(s, flag)) for s in signers)
        out += b''.join(push(E.public_key(s)) for s in seeds)
        return out + op(r.choice(['CHECK_MULTISIG', 'CHECK_MULTISIG_VERIFY']), b1(allowed), b1(m), b1(n))

    def s_time(self, d):
        r = self.r
        now = self.sc.get('timestamp', 1_700_000_000)
        now = now if isinstance(now, int) else 1_700_000_000
        c = now + r.choice([-100000, -61, -60, -59, -1, 0, 1, 59, 60, 61, 100000])
        cb = max(c, 0).to_bytes(r.choice([4, 5, 8, 9]), 'big') if r.random() < 0.9 else self.blob(0, 10)
        return push(cb) + op(r.choice(['CHECK_TIMESTAMP', 'CHECK_TIMESTAMP_VERIFY', 'CHECK_EPOCH', 'CHECK_EPOCH_VERIFY']))

    def s_curve(self, d):
        r = self.r
        c = r.randrange(7)
        n = r.choice([0, 1, 2, 2, 3])
        if c == 0:
            return push(self.blob(0, 40) if r.random() < 0.5 else self.seed()) + op('DERIVE_SCALAR')
        if c == 1:
            return push(self.blob(30, 34) if r.random() < 0.5 else self.scalar()) + op('CLAMP_SCALAR', b1(r.choice([0, 1, 255])))
        if c == 2:
            return b''.join(push(self.scalar()) for _ in range(n)) + op('ADD_SCALARS', b1(n))
        if c == 3:
            return b''.join(push(self.scalar()) for _ in range(n)) + op('SUBTRACT_SCALARS', b1(n))
        if c == 4:
            return push(self.scalar()) + op('DERIVE_POINT')
        if c == 5:
            return b''.join(push(self.point()) for _ in range(n)) + op('ADD_POINTS', b1(n))
        return b''.join(push(self.point()) for _ in range(n)) + op('SUBTRACT_POINTS', b1(n))

    def s_adapter(self, d):
        r = self.r
        seed = self.seed()
        t = E.clamp(r.randbytes(32))
        T = E.base_mult_noclamp(t)
        m = self.blob(0, 20)
        c = r.randrange(4)
        if c == 0:
            return push(seed) + push(m) + push(T if r.random() < 0.9 else self.point()) + op('MAKE_ADAPTER_SIG_PUBLIC')
        if c == 1:      # make, then check: stack after MASU is [R, sa]; CAS wants sa R m T X (X top)
            return push(seed) + push(m) + push(T) + op('MAKE_ADAPTER_SIG_PUBLIC') + op('SWAP2') + push(m) + push(T) \
                + push(E.public_key(seed) if r.random() < 0.8 else self.point()) + op('CHECK_ADAPTER_SIG')
        if c == 2:      # make, then decrypt: DAS wants sa R t (t top)
            return push(seed) + push(m) + push(T) + op('MAKE_ADAPTER_SIG_PUBLIC') + op('SWAP2') \
                + push(t if r.random() < 0.8 else self.scalar()) + op('DECRYPT_ADAPTER_SIG')
        return push(m) + push(t) + push(seed) + op('MAKE_ADAPTER_SIG_PRIVATE')

    def s_flag(self, d):
        r = self.r
        f = r.choice([b1(r.randrange(0, 12)), b1(r.randrange(256)), b'ts_threshold', b'', self.blob(0, 3)])
        return op(r.choice(['SET_FLAG', 'UNSET_FLAG']), b1(len(f)), f)

    def s_getvalue(self, d):
        r = self.r
        keys = [k for k in self.sc if isinstance(k, str)] + ['nokey', 'returned', 'sigfield9']
        k = r.choice(keys).encode('utf-8') if r.random() < 0.9 else r.choice([b'\xff\xfe', b'timestamp\x00'])
        return op('GET_VALUE', b1(len(k)), k)

    def s_invoke(self, d):
        r = self.r
        ids = list(self.contracts) + [b'nocontract']
        n = r.randrange(0, 3)
        cnt = enc(n) if r.random() < 0.9 else enc(r.choice([-1, 5]))
        return b''.join(push(self.blob(0, 5)) for _ in range(n)) + push(cnt) + push(r.choice(ids)) + op('INVOKE')

    def s_transfer(self, d):
        """CHECK_TRANSFER on the reference contract: count 0..3, sources and proofs in corresponding order or not"""
        r = self.r
        ids = list(self.contracts) + [b'nocontract']
        n = r.choice([0, 1, 1, 2, 2, 3])
        srcs = [bytes([r.randrange(1, 6)]) + self.blob(0, 2) for _ in range(n)]
        prfs = [bytes([r.choice([1, 3, 5, 7, 2]), r.randrange(0, 60)]) + self.blob(0, 2) + srcs[i][:1] for i in range(n)]
        if n >= 2 and r.random() < 0.3:          # pairing broken: a proof that belongs to another source
            prfs[0], prfs[1] = prfs[1], prfs[0]
        if n and r.random() < 0.15:
            prfs[r.randrange(n)] = self.blob(0, 3)
        total = sum(p[1] if len(p) >= 2 else 0 for p in prfs)
        amount = enc(r.choice([0, total, total, total + 1, max(total - 1, 0), -5]))
        constraint = r.choice([b'', b'', bytes([r.choice([0, 1, 3, 9])]), self.blob(1, 3)])
        dest = self.blob(0, 4)
        cnt = enc(n) if r.random() < 0.9 else r.choice([b'', enc(n + 1), b'\xff'])
        pops = [r.choice(ids) if r.random() < 0.15 else ids[0], amount if r.random() < 0.95 else b'', constraint, dest, cnt] + srcs + prfs
        return b''.join(push(x) for x in reversed(pops)) + op('CHECK_TRANSFER')

    def s_template(self, d):
        r = self.r
        flag = r.choice([0, 1, 2, 3, 5, 128, 129])
        out = b''
        for i in range(8, 0, -1):      # templates are popped in ascending field order
            if (flag >> (i - 1)) & 1:
                f = self.sc.get(f'sigfield{i}')
                out += push(f if isinstance(f, bytes) and r.random() < 0.7 else self.blob(0, 5))
        return out + op(r.choice(['CHECK_TEMPLATE', 'CHECK_TEMPLATE_VERIFY']), b1(flag))

    def s_nop(self, d):
        r = self.r
        n = r.choice([0, 1, 2, 3])
        cnt = n if r.random() < 0.85 else r.choice([127, 128, 255, 5])
        return b''.join(push(self.blob(0, 3)) for _ in range(n)) + b1(r.randrange(92, 256)) + b1(cnt)

    def s_random(self, d):
        r = self.r
        return push(enc(r.choice([0, 1, 5, 32, 100, 1024, 1025, -1, 70000]))) + op('RANDOM')

    def s_return(self, d):
        return op('RETURN')

    def s_if(self, d):
        return push(self.r.choice([b'\x00', b'\x01', b'\xff', b'', b'\x00\x00\x02'])) + block('IF', self.body(d + 1))

    def s_ifelse(self, d):
        return push(self.r.choice([b'\x00', b'\x01', b'\xff', b''])) + block('IF_ELSE', self.body(d + 1), self.body(d + 1))

    def s_try(self, d):
        return block('TRY_EXCEPT', self.body(d + 1), self.body(d + 1, 0, 3))

    def s_loop(self, d):
        r = self.r
        n = r.choice([0, 1, 2, 3, 5])
        # counter loop: [n] loop { <body> push -1 add 2 }   (body must be stack-neutral to terminate)
        c = r.random()
        if c < 0.6:
            inner = r.choice([b'', op('DEPTH') + op('POP0'), push(b'\x07') + op('POP0'), op('DEPTH') + block('IF', self.body(d + 2, 0, 2))])
            return push(enc(n)) + block('LOOP', inner + push(b'\xff') + op('ADD_INTS', b'\x02')) + op('POP0')
        if c < 0.8:
            return push(b'\x01') + block('LOOP', self.body(d + 1, 0, 3))
        return push(r.choice([b'\x00', b'', b'\x01'])) + block('LOOP', self.body(d + 1, 0, 2) + op('FALSE'))

    def s_defcall(self, d):
        r = self.r
        h = r.randrange(0, 4)
        self.handles.append(h)
        body = self.body(d + 1)
        if r.random() < 0.15:
            body += op('CALL', b1(h))       # recursion
        out = op('DEF', b1(h), u16(len(body)), body)
        if r.random() < 0.8:
            out += self.body(d, 0, 1) + op('CALL', b1(h))
        return out

    def s_call_existing(self, d):
        r = self.r
        return op('CALL', b1(r.choice(self.handles) if self.handles and r.random() < 0.8 else r.randrange(0, 6)))

    def s_eval(self, d):
        r = self.r
        script = self.body(d + 1, 0, 3)
        if r.random() < 0.1:
            script = b''
        return push(script) + op('EVAL')

    def s_merkle(self, d):
        import hashlib
        r = self.r
        script = self.body(d + 1, 0, 2) or op('TRUE')
        sib = hashlib.sha256(self.blob(1, 8)).digest()
        hh = hashlib.sha256(hashlib.sha256(script).digest()).digest()
        root = bytes(a ^ b for a, b in zip(hh, hashlib.sha256(sib).digest()))
        m = r.random()
        if m < 0.2:
            root = bytes([root[0] ^ 1]) + root[1:]
        elif m < 0.3:
            sib = sib[:-1] + bytes([sib[-1] ^ 1])
        return push(sib) + push(script) + op('MERKLEVAL', root)

    def s_taproot(self, d):
        import hashlib
        r = self.r
        seed = self.seed()
        P = E.public_key(seed)
        script = self.body(d + 1, 0, 2) or op('TRUE')
        t = E.clamp(hashlib.sha256(P + hashlib.sha256(script).digest()).digest())
        root = E.point_add(P, E.base_mult_noclamp(t))
        flag = self.sigflag() if r.random() < 0.3 else 0
        allowed = r.choice([flag, 255, 0])
        c = r.random()
        if c < 0.45:      # script path
            m = r.random()
            s2 = script if m > 0.25 else script + b'\x01'
            return push(s2) + push(P) + push(root) + op('TAPROOT', b1(allowed))
        if c < 0.9:       # key path: signature under the root key x + t
            x = E.derive_key_from_seed(seed)
            xt = E.scalar_add(x, t)
            # sign with scalar xt (RFC-style with deterministic nonce)
            msg = message(self.sc, flag)
            rr = E.sc(E.H_big(b'nonce', xt, msg)) % E.L
            R = E.encode(E._mul(rr, E.B))
            k = E.sc(E.H_big(R, root, msg)) % E.L
            S = (rr + k * E.sc(xt)) % E.L
            sig = R + S.to_bytes(32, 'little') + (b1(flag) if flag else b'')
            if r.random() < 0.2:
                sig = bytes([sig[0] ^ 1]) + sig[1:]
            return push(sig) + push(root) + op('TAPROOT', b1(allowed))
        return push(self.blob(0, 40)) + push(self.blob(31, 33)) + op('TAPROOT', b1(allowed))

    # ---------------------------------------------------------------- programs
    def program(self, n_lo=1, n_hi=8) -> bytes:
        self.handles = []
        return self.body(0, n_lo, n_hi)


class InvokeContract:
    """A deterministic CanBeInvoked contract used by generated runs."""
    def __init__(self, tag: bytes):
        self.tag = tag

    def abi(self, args):
        import hashlib
        if args and args[0] == b'':
            return []
        h = hashlib.sha256(self.tag + b'|'.join(args)).digest()
        return [h[:len(args)], self.tag][:1 + (len(args) % 2)]

    # the reference CanCheckTransfer contract of TapeVM.tla (RefVP / RefVT / RefVC / RefAgg): total functions of bytes
    def verify_txn_proof(self, proof):
        return len(proof) >= 1 and proof[0] % 2 == 1

    def verify_transfer(self, proof, source, destination):
        return len(proof) >= 1 and len(source) >= 1 and proof[-1] == source[0]

    def verify_txn_constraint(self, proof, constraint):
        return len(proof) >= 1 and constraint[0] <= proof[0]

    def calc_txn_aggregates(self, proofs, scope=None):
        return {scope: sum(p[1] if len(p) >= 2 else 0 for p in proofs)}
