-------------------------------- MODULE Asm --------------------------------
(***************************************************************************)
(* The assembler and the disassembler (C11, C12).                         *)
(*                                                                         *)
(* Abstract programs are sequences of nodes                               *)
(*   [n |-> kind, a |-> .., b |-> .., c |-> .., st |-> style]             *)
(* (one record shape for every kind so that TLC can compare them):        *)
(*   "op0"  a = opcode                      no operand                    *)
(*   "b1"   a = opcode, b = byte            one-byte operand; st = "d" (signed decimal) or "x" *)
(*   "b2"   a = 52, b = <<i, j>>            SWAP                          *)
(*   "b3"   a = 70|71, b = <<flags, m, n>>  CHECK_MULTISIG(_VERIFY)       *)
(*   "f4"   a = 23|25, b = 4 bytes          float divisor; st = "f": written as an f literal, else hex *)
(*   "h32"  a = 60, b = 32 bytes            MERKLEVAL                     *)
(*   "s1"   a = opcode, b = value           size byte + value             *)
(*   "wc"   b = key value, c = count        WRITE_CACHE                   *)
(*   "push" b = value                       PUSH pseudo-op: smallest push *)
(*   "p1"/"p2" b = bytes, st = "sz"|"nosz"  explicit PUSH1 / PUSH2        *)
(*   "if"   b = body, c = hoisted condition; st = "brace" | "end"         *)
(*   "ife"  b = then body, c = else body;    st = "brace" | "end"         *)
(*   "try"  b = body, c = except body;       st = "brace" | "noexc" (no EXCEPT clause) *)
(*   "loop" b = body; st = "brace" | "end"                                *)
(*   "def"  a = handle, b = body; st = "brace" | "end" | "dval" | "xval"  *)
(*   "vset" a = name, c = count         @= name N                         *)
(*   "vvals" a = name, b = values       @= name [ v1 v2 ]                 *)
(*   "vload" / "vsize" a = name         @name / @#name                    *)
(*   "macro" b = body                   != m [ ] { body }  !m [ ]         *)
(*   "ct"   b = body                    push ~ { body }                   *)
(*   "ctx"  b = body                    push ~! { body }   (executed)     *)
(*   "cmt"                              a comment                         *)
(* A value is [k |-> "d"|"x"|"s"|"f", i |-> integer, b |-> bytes]; an "f"  *)
(* value is a 4-byte binary32 pattern written as its decimal text.        *)
(***************************************************************************)
EXTENDS TapeVM, Isa, Float32, TLC

\* Every node has the same fields with the same types (TLC compares them):
\*   a integer, y bytes, v value, vs sequence of values, b / c sequences of nodes, st string
VD(i) == [k |-> "d", i |-> i, b |-> <<>>]
VX(b) == [k |-> "x", i |-> 0, b |-> b]
VS(b) == [k |-> "s", i |-> 0, b |-> b]
VF(b) == [k |-> "f", i |-> 0, b |-> b]        \* a float literal: b = the binary32 pattern of a small dyadic value
VDB(b) == [k |-> "D", i |-> 0, b |-> b]        \* a decimal integer of any size, given by its minimal encoding
NoVal == VX(<<>>)
Mk(n, a, y, v, vs, b, c, st) == [n |-> n, a |-> a, y |-> y, v |-> v, vs |-> vs, b |-> b, c |-> c, st |-> st]
NOp0(op)        == Mk("op0", op, <<>>, NoVal, <<>>, <<>>, <<>>, "")
NB1(op, x, st)  == Mk("b1", op, <<x>>, NoVal, <<>>, <<>>, <<>>, st)
NBn(k, op, y)   == Mk(k, op, y, NoVal, <<>>, <<>>, <<>>, "")          \* "b2" "b3" "f4" "h32"
NF4(op, y)      == Mk("f4", op, y, NoVal, <<>>, <<>>, <<>>, "f")          \* float divisor written as an f literal
NS1(op, v)      == Mk("s1", op, <<>>, v, <<>>, <<>>, <<>>, "")
NWc(v, n)       == Mk("wc", n, <<>>, v, <<>>, <<>>, <<>>, "")
NPush(v)        == Mk("push", 0, <<>>, v, <<>>, <<>>, <<>>, "")
NP(k, y, st)    == Mk(k, 0, y, NoVal, <<>>, <<>>, <<>>, st)           \* "p1" "p2"
NIf(b, h, st)   == Mk("if", 0, <<>>, NoVal, <<>>, b, h, st)
NIfe(b, e, st)  == Mk("ife", 0, <<>>, NoVal, <<>>, b, e, st)
NTry(b, e, st)  == Mk("try", 0, <<>>, NoVal, <<>>, b, e, st)
NLoop(b, st)    == Mk("loop", 0, <<>>, NoVal, <<>>, b, <<>>, st)
NDef(h, b, st)  == Mk("def", h, <<>>, NoVal, <<>>, b, <<>>, st)
NVset(name, n)  == Mk("vset", n, name, NoVal, <<>>, <<>>, <<>>, "")
NVvals(name, vs) == Mk("vvals", 0, name, NoVal, vs, <<>>, <<>>, "")
NVar(k, name)   == Mk(k, 0, name, NoVal, <<>>, <<>>, <<>>, "")        \* "vload" "vsize"
NBody(k, b)     == Mk(k, 0, <<>>, NoVal, <<>>, b, <<>>, "")           \* "macro" "ct" "ctx"
NCmt            == Mk("cmt", 0, <<>>, NoVal, <<>>, <<>>, <<>>, "")
\* a macro with one parameter, template "OP_PUSH a OP_TRUE", invoked once per value of vs
NMacroP(id, vs) == Mk("macrop", id, <<>>, NoVal, vs, <<>>, <<>>, "")

\* bytes of a value where a general value is expected (PUSH, size-prefixed operands)
ValBytes(v) == IF v.k = "d" THEN EncS(FromInt(v.i)) ELSE v.b

\* ---- the documented encoding -------------------------------------------------------
RECURSIVE Enc(_), EncSeq(_)
EncSeq(ns) == IF ns = <<>> THEN <<>> ELSE Enc(Head(ns)) \o EncSeq(Tail(ns))

\* result of an inline-executed comptime block: top stack item after running it (or none)
RECURSIVE RunToEnd(_, _)
RunToEnd(v, fuel) == IF v.status # "run" \/ fuel = 0 THEN v ELSE RunToEnd(Step(v, NoHint), fuel - 1)
CtxValue(body) == LET v == RunToEnd(InitVM([BaseCfg EXCEPT !.scripts = <<EncSeq(body)>>]), 200) IN
                  IF v.stack = <<>> THEN <<>> ELSE <<v.stack[Len(v.stack)]>>

PushOf(b) == IF Len(b) = 1 THEN <<2>> \o b
             ELSE IF Len(b) < 256 THEN <<3, Len(b)>> \o b
             ELSE <<4>> \o U16B(Len(b)) \o b

Enc(x) ==
    CASE x.n = "op0"  -> <<x.a>>
      [] x.n \in {"b1", "b2", "b3", "f4", "h32"} -> <<x.a>> \o x.y
      [] x.n = "s1"   -> <<x.a, Len(ValBytes(x.v))>> \o ValBytes(x.v)
      [] x.n = "wc"   -> <<9, Len(ValBytes(x.v))>> \o ValBytes(x.v) \o <<x.a>>
      [] x.n = "push" -> PushOf(ValBytes(x.v))
      [] x.n = "p1"   -> <<3, Len(x.y)>> \o x.y
      [] x.n = "p2"   -> <<4>> \o U16B(Len(x.y)) \o x.y
      [] x.n = "if"   -> EncSeq(x.c) \o IBlock(43, EncSeq(x.b))
      [] x.n = "ife"  -> IBlock2(44, EncSeq(x.b), EncSeq(x.c))
      [] x.n = "try"  -> IBlock2(61, EncSeq(x.b), EncSeq(x.c))
      [] x.n = "loop" -> IBlock(69, EncSeq(x.b))
      [] x.n = "def"  -> IDef(x.a, EncSeq(x.b))
      [] x.n = "vset" -> <<9, Len(x.y)>> \o x.y \o <<x.a>>
      [] x.n = "vvals" -> EncSeq([i \in 1..Len(x.vs) |-> NPush(x.vs[i])]) \o <<9, Len(x.y)>> \o x.y \o <<Len(x.vs)>>
      [] x.n = "vload" -> <<10, Len(x.y)>> \o x.y
      [] x.n = "vsize" -> <<11, Len(x.y)>> \o x.y
      [] x.n = "macro" -> EncSeq(x.b)
      [] x.n = "macrop" -> EncSeq([i \in 1..(2 * Len(x.vs)) |-> IF i % 2 = 1 THEN NPush(x.vs[(i + 1) \div 2]) ELSE NOp0(1)])
      [] x.n = "ct"   -> PushOf(EncSeq(x.b))
      [] x.n = "ctx"  -> IF CtxValue(x.b) = <<>> THEN <<>> ELSE PushOf(CtxValue(x.b)[1])
      [] x.n = "cmt"  -> <<>>

\* can the node be encoded at all?  (operands must fit their fields)
RECURSIVE Encodable(_), EncodableSeq(_)
EncodableSeq(ns) == \A i \in 1..Len(ns) : Encodable(ns[i])
Encodable(x) ==
    CASE x.n = "push" -> Len(ValBytes(x.v)) >= 1 /\ Len(ValBytes(x.v)) < 65536
      [] x.n = "s1"   -> Len(ValBytes(x.v)) < 256
      [] x.n = "wc"   -> Len(ValBytes(x.v)) < 256 /\ x.a < 256
      [] x.n = "p1"   -> Len(x.y) < 256
      [] x.n = "p2"   -> Len(x.y) < 65536
      [] x.n = "h32"  -> Len(x.y) = 32                     \* fixed-width operands: exactly 32 / 4 bytes, nothing shorter or longer
      [] x.n = "f4"   -> Len(x.y) = 4
      [] x.n \in {"if", "loop", "def", "macro", "ct", "ctx"} -> EncodableSeq(x.b) /\ Len(EncSeq(x.b)) < 65536
                                                                /\ (x.n # "if" \/ EncodableSeq(x.c))
      [] x.n \in {"ife", "try"} -> EncodableSeq(x.b) /\ EncodableSeq(x.c) /\ Len(EncSeq(x.b)) < 65536 /\ Len(EncSeq(x.c)) < 65536
      [] x.n \in {"vvals", "macrop"} -> \A i \in 1..Len(x.vs) : Encodable(NPush(x.vs[i]))
      [] OTHER -> TRUE

\* ---- rendering to token sequences ------------------------------------------------------
HexDigit == <<"0", "1", "2", "3", "4", "5", "6", "7", "8", "9", "a", "b", "c", "d", "e", "f">>
HexByte(b) == HexDigit[(b \div 16) + 1] \o HexDigit[(b % 16) + 1]
RECURSIVE Hex(_)
Hex(b) == IF b = <<>> THEN "" ELSE HexByte(Head(b)) \o Hex(Tail(b))
OpName(a) == IF a < NOps THEN "OP_" \o Names[a + 1] ELSE "NOP" \o ToString(a)
\* ASCII text of a string value (the families use letters, digits and single spaces only)
CharTable == <<" ", "!", "\"", "#", "$", "%", "&", "'", "(", ")", "*", "+", ",", "-", ".", "/", "0", "1", "2", "3", "4", "5", "6", "7", "8", "9", ":", ";", "<", "=", ">", "?", "@", "A", "B", "C", "D", "E", "F", "G", "H", "I", "J", "K", "L", "M", "N", "O", "P", "Q", "R", "S", "T", "U", "V", "W", "X", "Y", "Z", "[", "\\", "]", "^", "_", "`", "a", "b", "c", "d", "e", "f", "g", "h", "i", "j", "k", "l", "m", "n", "o", "p", "q", "r", "s", "t", "u", "v", "w", "x", "y", "z", "{", "|", "}", "~">>
Chars(i) == CharTable[i - 31]
RECURSIVE Text(_)
Text(b) == IF b = <<>> THEN "" ELSE Chars(Head(b)) \o Text(Tail(b))

ValTok(v) == CASE v.k = "d" -> "d" \o ToString(v.i)
               [] v.k = "D" -> "d" \o DecStr(DecS(v.b))
               [] v.k = "x" -> "x" \o Hex(v.b)
               [] v.k = "s" -> "s\"" \o Text(v.b) \o "\""
               [] v.k = "f" -> "f" \o FText(FValue(v.b))

RECURSIVE SeqFlat(_)
SeqFlat(ss) == IF ss = <<>> THEN <<>> ELSE Head(ss) \o SeqFlat(Tail(ss))
RECURSIVE Toks(_), ToksSeq(_)
ToksSeq(ns) == IF ns = <<>> THEN <<>> ELSE Toks(Head(ns)) \o ToksSeq(Tail(ns))
Toks(x) ==
    CASE x.n = "op0"  -> <<OpName(x.a)>>
      [] x.n = "b1"   -> <<OpName(x.a), IF x.st = "x" THEN "x" \o HexByte(x.y[1]) ELSE "d" \o ToString(S8(x.y[1]))>>
      [] x.n = "b2"   -> <<OpName(x.a), "d" \o ToString(x.y[1]), "d" \o ToString(x.y[2])>>
      [] x.n = "b3"   -> <<OpName(x.a), "x" \o HexByte(x.y[1]), "d" \o ToString(x.y[2]), "d" \o ToString(x.y[3])>>
      [] x.n \in {"f4", "h32"} -> <<OpName(x.a), IF x.st = "f" THEN "f" \o FText(FValue(x.y)) ELSE "x" \o Hex(x.y)>>
      [] x.n = "s1"   -> <<OpName(x.a), ValTok(x.v)>>
      [] x.n = "wc"   -> <<"OP_WRITE_CACHE", ValTok(x.v), "d" \o ToString(x.a)>>
      [] x.n = "push" -> <<"OP_PUSH", ValTok(x.v)>>
      [] x.n = "p1"   -> IF x.st = "sz" THEN <<"OP_PUSH1", "d" \o ToString(Len(x.y)), "x" \o Hex(x.y)>> ELSE <<"OP_PUSH1", "x" \o Hex(x.y)>>
      [] x.n = "p2"   -> IF x.st = "sz" THEN <<"OP_PUSH2", "d" \o ToString(Len(x.y)), "x" \o Hex(x.y)>> ELSE <<"OP_PUSH2", "x" \o Hex(x.y)>>
      [] x.n = "if"   -> <<"OP_IF">> \o (IF x.c = <<>> THEN <<>> ELSE <<"(">> \o ToksSeq(x.c) \o <<")">>)
                         \o (IF x.st = "end" THEN ToksSeq(x.b) \o <<"END_IF">> ELSE <<"{">> \o ToksSeq(x.b) \o <<"}">>)
      [] x.n = "ife"  -> IF x.st = "end" THEN <<"OP_IF">> \o ToksSeq(x.b) \o <<"ELSE">> \o ToksSeq(x.c) \o <<"END_IF">>
                         ELSE <<"OP_IF", "{">> \o ToksSeq(x.b) \o <<"}", "ELSE", "{">> \o ToksSeq(x.c) \o <<"}">>
      [] x.n = "try"  -> IF x.st = "noexc" THEN <<"OP_TRY", "{">> \o ToksSeq(x.b) \o <<"}">>
                         ELSE <<"OP_TRY", "{">> \o ToksSeq(x.b) \o <<"}", "EXCEPT", "{">> \o ToksSeq(x.c) \o <<"}">>
      [] x.n = "loop" -> IF x.st = "end" THEN <<"OP_LOOP">> \o ToksSeq(x.b) \o <<"END_LOOP">>
                         ELSE <<"OP_LOOP", "{">> \o ToksSeq(x.b) \o <<"}">>
      [] x.n = "def"  -> LET h == CASE x.st = "dval" -> "d" \o ToString(x.a) [] x.st = "xval" -> "x" \o HexByte(x.a) [] OTHER -> ToString(x.a)
                         IN IF x.st = "end" THEN <<"OP_DEF", h>> \o ToksSeq(x.b) \o <<"END_DEF">>
                            ELSE <<"OP_DEF", h, "{">> \o ToksSeq(x.b) \o <<"}">>
      [] x.n = "vset" -> <<"@=", Text(x.y), ToString(x.a)>>
      [] x.n = "vvals" -> <<"@=", Text(x.y), "[">> \o [i \in 1..Len(x.vs) |-> ValTok(x.vs[i])] \o <<"]">>
      [] x.n = "vload" -> <<"@" \o Text(x.y)>>
      [] x.n = "vsize" -> <<"@#" \o Text(x.y)>>
      \* (a = number of the macro: a program must not define one name twice, the preprocessor
      \*  collects every definition before anything is assembled)
      [] x.n = "macro" -> <<"!=", "mm" \o ToString(x.a), "[", "]", "{">> \o ToksSeq(x.b) \o <<"}", "!mm" \o ToString(x.a), "[", "]">>
      [] x.n = "macrop" -> <<"!=", "mp" \o ToString(x.a), "[", "a", "]", "{", "OP_PUSH", "a", "OP_TRUE", "}">>
                           \o SeqFlat([i \in 1..Len(x.vs) |-> <<"!mp" \o ToString(x.a), "[", ValTok(x.vs[i]), "]">>])
      [] x.n = "ct"   -> <<"OP_PUSH", "~", "{">> \o ToksSeq(x.b) \o <<"}">>
      [] x.n = "ctx"  -> <<"OP_PUSH", "~!", "{">> \o ToksSeq(x.b) \o <<"}">>
      [] x.n = "cmt"  -> <<"#", "a", "comment", "#">>

----------------------------------------------------------------------------
\* ---- the disassembler -----------------------------------------------------------------
\* Canonical node of the instruction at offset pc (InstrLen(code, pc) = k >= 1 is a precondition)
RECURSIVE Canon(_), CanonAt(_, _)
Cut(code, from, len) == SubSeq(code, from + 1, from + len)
CanonAt(code, pc) ==
    LET op == code[pc + 1]
        f == Fmt(op)
        B(i) == code[pc + 1 + i]
    IN CASE f = "-"   -> NOp0(op)
         [] f = "b1"  -> NB1(op, B(1), IF op \in {35, 36, 72, 91, 5, 89, 90} THEN "x" ELSE "d")
         [] f = "b2"  -> NBn("b2", op, <<B(1), B(2)>>)
         [] f = "b3"  -> NBn("b3", op, <<B(1), B(2), B(3)>>)
         [] f = "f4"  -> NBn("f4", op, Cut(code, pc + 1, 4))
         [] f = "h32" -> NBn("h32", op, Cut(code, pc + 1, 32))
         [] f = "s1"  -> IF op = 3 THEN NP("p1", Cut(code, pc + 2, B(1)), "sz")
                         ELSE IF op \in {17, 19} /\ B(1) >= 1 /\ EncS(DecS(Cut(code, pc + 2, B(1)))) = Cut(code, pc + 2, B(1))
                              THEN NS1(op, VDB(Cut(code, pc + 2, B(1))))   \* minimal integers print as decimal
                         ELSE NS1(op, VX(Cut(code, pc + 2, B(1))))
         [] f = "s1c" -> NWc(VX(Cut(code, pc + 2, B(1))), B(2 + B(1)))
         [] f = "s2"  -> LET n == B(1) * 256 + B(2) body == Cut(code, pc + 3, n) IN
                         IF op = 4 THEN NP("p2", body, "sz")
                         ELSE IF op = 43 THEN NIf(Canon(body), <<>>, "brace")
                         ELSE NLoop(Canon(body), "brace")
         [] f = "hs2" -> LET n == B(2) * 256 + B(3) IN NDef(B(1), Canon(Cut(code, pc + 4, n)), "brace")
         [] f = "s2s2" -> LET n == B(1) * 256 + B(2)
                              m == code[pc + 4 + n] * 256 + code[pc + 5 + n]
                              b1 == Canon(Cut(code, pc + 3, n))
                              b2 == Canon(Cut(code, pc + 5 + n, m))
                          IN IF op = 44 THEN NIfe(b1, b2, "brace")
                             ELSE NTry(b1, b2, IF b2 = <<>> THEN "noexc" ELSE "brace")
RECURSIVE CanonFrom(_, _)
CanonFrom(code, pc) == IF pc >= Len(code) THEN <<>>
                       ELSE <<CanonAt(code, pc)>> \o CanonFrom(code, pc + InstrLen(code, pc))
Canon(code) == CanonFrom(code, 0)

\* does the whole string (including every nested body) decode?  DIV_INT / MOD_INT print their
\* operand as a decimal integer, which needs at least one byte
RECURSIVE Decodes(_), DecodesFrom(_, _)
BodyOK(code, pc) ==
    LET op == code[pc + 1] f == Fmt(op) B(i) == code[pc + 1 + i] IN
    CASE f = "s2" /\ op # 4 -> Decodes(Cut(code, pc + 3, B(1) * 256 + B(2)))
      [] f = "hs2" -> Decodes(Cut(code, pc + 4, B(2) * 256 + B(3)))
      [] f = "s2s2" -> LET n == B(1) * 256 + B(2) m == code[pc + 4 + n] * 256 + code[pc + 5 + n] IN
                       Decodes(Cut(code, pc + 3, n)) /\ Decodes(Cut(code, pc + 5 + n, m))
      [] OTHER -> TRUE
DecodesFrom(code, pc) == IF pc >= Len(code) THEN TRUE
                         ELSE LET k == InstrLen(code, pc) IN k >= 1 /\ BodyOK(code, pc) /\ DecodesFrom(code, pc + k)
Decodes(code) == DecodesFrom(code, 0)

\* the listing: one line per instruction / brace, indented four spaces per level
RECURSIVE Spaces(_)
Spaces(n) == IF n = 0 THEN "" ELSE "    " \o Spaces(n - 1)
RECURSIVE JoinToks(_)
JoinToks(ts) == IF Len(ts) = 1 THEN ts[1] ELSE ts[1] \o " " \o JoinToks(Tail(ts))
RECURSIVE Lines(_, _), LinesSeq(_, _)
LinesSeq(ns, ind) == IF ns = <<>> THEN <<>> ELSE Lines(Head(ns), ind) \o LinesSeq(Tail(ns), ind)
Lines(x, ind) ==
    CASE x.n = "if"   -> <<Spaces(ind) \o "OP_IF {">> \o LinesSeq(x.b, ind + 1) \o <<Spaces(ind) \o "}">>
      [] x.n = "ife"  -> <<Spaces(ind) \o "OP_IF {">> \o LinesSeq(x.b, ind + 1) \o <<Spaces(ind) \o "} ELSE {">>
                         \o LinesSeq(x.c, ind + 1) \o <<Spaces(ind) \o "}">>
      [] x.n = "try"  -> <<Spaces(ind) \o "OP_TRY {">> \o LinesSeq(x.b, ind + 1)
                         \o (IF x.c = <<>> THEN <<>> ELSE <<Spaces(ind) \o "} EXCEPT {">> \o LinesSeq(x.c, ind + 1))
                         \o <<Spaces(ind) \o "}">>
      [] x.n = "loop" -> <<Spaces(ind) \o "OP_LOOP {">> \o LinesSeq(x.b, ind + 1) \o <<Spaces(ind) \o "}">>
      [] x.n = "def"  -> <<Spaces(ind) \o "OP_DEF " \o ToString(x.a) \o " {">> \o LinesSeq(x.b, ind + 1) \o <<Spaces(ind) \o "}">>
      [] OTHER -> <<Spaces(ind) \o JoinToks(Toks(x))>>
Listing(code) == LinesSeq(Canon(code), 0)
=============================================================================
