"""C18 - anonymous multi-hop locks: consistent setup and right-to-left release cascade."""
import random, sys
from ..par import SafePool
from ..common import Report, REPO
from .. import scncheck
from ..gen.progs import push, op
from ..ref import ed25519 as E

INV = ['OnlyRightToLeft', 'WrongScalarFails', 'RightScalarOnly', 'ReleaseExact', 'SetupConsistent', 'CascadeCompletes', 'RefundOnlyOwn']
CREATE = 1_700_000_000
TIMEOUT = 3600
_chains = {}


def _impl():
    if REPO not in sys.path:
        sys.path.insert(0, REPO)
    import tapescript.functions as F
    import tapescript.tools as T
    from tapescript.AMHL import AMHL
    return F, T, AMHL


class Chain:
    """a real AMHL chain of n hops: setup, per-hop adapter witnesses, keys via the release cascade"""

    def __init__(self, n, seed, rng, refunds=False, flags='00'):
        """refunds: False (none), True (a random subset of hops), or the set of hop indices that have refund keys;
        flags: the sigflags the whole chain is set up with (locks, adapter witnesses, decrypted signatures)"""
        self.flags = flags
        F, T, AMHL = _impl()
        self.n = n
        self.seeds = [rng.randbytes(32) for _ in range(n)]
        self.pks = [E.public_key(s) for s in self.seeds]
        self.sf = [{'sigfield1': b'hop %d' % i, 'sigfield2': rng.randbytes(8)} for i in range(n)]
        if flags == '00' and n >= 3:
            self.sf[1] = {'sigfield8': b'only the last sigfield %d' % n}      # a hop that signs sigfield8 alone
        self.rseeds = [rng.randbytes(32) for _ in range(n)]
        if isinstance(refunds, (set, frozenset, list, tuple)):
            hops = set(refunds)
        else:
            hops = {i for i in range(n) if refunds and rng.random() < 0.6}
        self.rhops = sorted(hops)
        refund = {self.pks[i]: E.public_key(self.rseeds[i]) for i in hops} or None
        if refund and n % 2 == 0:          # refund keys may be given as key objects as well as bytes
            from nacl.signing import VerifyKey
            refund = {k: VerifyKey(v) for k, v in refund.items()}
        old = T.time
        T.time = lambda: CREATE
        try:
            self.res = T.setup_amhl(seed, list(self.pks), sigflags=flags, refund_pubkeys=refund, timeout=TIMEOUT)
        finally:
            T.time = old
        self.refund = refund or {}
        if seed:
            self.setup = AMHL.setup(n, seed)
            self.y = list(self.setup[0])
        else:
            # an empty seed: the chain is sampled from fresh randomness inside setup_amhl; each party's partial secret is
            # the last element of its entry, and the views are rebuilt from the returned tweak points
            self.y = [self.res[self.pks[i]][3] for i in range(n)]
            self.setup = (tuple(self.y), tuple(self.res[self.pks[i]][2] for i in range(n)))
        self.problems = []
        # independent check of the setup: hop i's tweak point is the sum of the points of secrets 0..i
        acc = 0
        for i in range(n):
            acc = (acc + E.sc(self.y[i])) % E.L
            want = E.base_mult_noclamp(acc.to_bytes(32, 'little'))
            if self.res[self.pks[i]][2] != want:
                self.problems.append(f'hop {i}: tweak point is not the sum of the points of secrets 0..{i}')
        for i in range(n + 1):
            if not AMHL.check_setup(AMHL.setup_for(self.setup, i), i, n):
                self.problems.append(f'party {i}: view fails check_setup')
        if not AMHL.verify_lock_key(self.res[self.pks[n - 1]][2], self.res['key']):
            self.problems.append('the final key does not open the last lock')
        self.wit = [T.make_adapter_witness(self.seeds[i], self.res[self.pks[i]][2], dict(self.sf[i]), flags) for i in range(n)]
        for i in range(n):
            if not F.run_auth_scripts([bytes(self.wit[i].bytes), bytes(self.res[self.pks[i]][0].bytes)], dict(self.sf[i])):
                self.problems.append(f'hop {i}: adapter witness does not satisfy the adapter lock')
        # the cascade through the real API: decrypt the last hop with the final key, then release leftwards
        self.K = [None] * n
        k = self.res['key']
        for i in range(n - 1, -1, -1):
            self.K[i] = k
            sig = T.decrypt_adapter(self.wit[i], k)
            if i > 0:
                k = T.release_left_amhl_lock(self.wit[i], sig, self.y[i])
        acc = 0
        for i in range(n):
            acc = (acc + E.sc(self.y[i])) % E.L
            if E.sc(self.K[i]) % E.L != acc:
                self.problems.append(f'release cascade: key for hop {i} is not y_0 + .. + y_{i}')

    def attempt(self, hop, scalar):
        F, T, _ = _impl()
        sig = T.decrypt_adapter(self.wit[hop], scalar)
        if self.flags != '00':
            sig += bytes.fromhex(self.flags)
        lock2 = self.res[self.pks[hop]][1]
        wit = push(sig) + (op('TRUE') if self.pks[hop] in self.refund else b'')
        return F.run_auth_scripts([wit, bytes(lock2.bytes)], dict(self.sf[hop]))


    def attempt_refund(self, hop, j, tm):
        """hop j's refund key signs for the refund branch of hop `hop`'s lock, just before / after the timeout"""
        F, T, _ = _impl()
        t = CREATE + TIMEOUT + (1 if tm == 'after' else -1)
        wit = T.make_ptlc_refund_witness(self.rseeds[j], dict(self.sf[hop]), self.flags)
        old = F.time
        F.time = lambda: t
        try:
            return F.run_auth_scripts([bytes(wit.bytes), bytes(self.res[self.pks[hop]][1].bytes)], {**self.sf[hop], 'timestamp': t})
        finally:
            F.time = old


def chain_for(n, tag=0, refunds=False, flags='00'):
    refunds = frozenset(refunds) if isinstance(refunds, (set, frozenset, list, tuple)) else refunds
    key = (n, tag, refunds, flags)
    if key not in _chains:
        rng = random.Random(f'chain{n}/{tag}')
        # (an empty seed is allowed: the chain is then sampled from fresh randomness, and must still be one consistent chain)
        if tag % 5 == 3:
            # seeds longer than 32 bytes that share their first 32 bytes are still different chains
            pre = rng.randbytes(32)
            sa, sb = pre + rng.randbytes(16), pre + rng.randbytes(16)
            _chains[key] = (Chain(n, sa, rng, refunds, flags), Chain(n, sb, rng))
        else:
            _chains[key] = (Chain(n, b'' if tag % 5 == 4 else rng.randbytes(32), rng, refunds, flags), Chain(n, rng.randbytes(32), rng))
    return _chains[key]


def scalar_of(a, b, nm, ix):
    if nm == 'K':
        return a.K[ix]
    if nm == 'y':
        return a.y[ix]
    return b.K[ix]


def run_mc(k):
    got = None
    for flags in ('00', '01'):       # the whole chain set up without / with a sigflag masking one of the two sigfields
        a, b = chain_for(k['n'], tag=3 if flags == '01' else 0, refunds=frozenset(k['refunds']), flags=flags)
        if a.problems:
            return 'setup:' + a.problems[0], f'sigflags {flags}'
        if k['nm'] == 'F':
            got = 'opens' if a.attempt_refund(k['hop'], k['ix'], k['tm']) else 'fails'
        else:
            got = 'opens' if a.attempt(k['hop'], scalar_of(a, b, k['nm'], k['ix'])) else 'fails'
        if got != k['expect']:
            return got, f'sigflags {flags}'
    return got, None


def record_random(args):
    seed, count = args
    out = []
    for j in range(count):
        r = random.Random(f'{seed}/{j}')
        n = r.choice([2, 3, 4, 5, 6, 8])
        try:
            a, b = chain_for(n, tag=r.randrange(5) + 1000 * seed, refunds=r.random() < 0.5, flags=r.choice(['00', '00', '01', '02', '80', '06']))
        except Exception as e:
            from ..scncheck import raised_in_repo
            if not raised_in_repo(e):
                raise
            out.append({'n': n, 'hop': 0, 'nm': 'K', 'ix': 0, 'tm': '', 'refunds': [], 'got': f'setup:raised-{type(e).__name__}: {e}'[:200]})
            continue
        if a.problems:
            out.append({'n': n, 'hop': 0, 'nm': 'K', 'ix': 0, 'tm': '', 'refunds': a.rhops, 'got': 'setup:' + a.problems[0]})
            continue
        # a random release order: every hop is tried with every scalar released so far
        for _ in range(6):
            hop = r.randrange(n)
            nm = r.choice(['K', 'K', 'K', 'y', 'B'])
            ix = r.randrange(1, n) if nm == 'y' else r.randrange(n)
            got = a.attempt(hop, scalar_of(a, b, nm, ix))
            out.append({'n': n, 'hop': hop, 'nm': nm, 'ix': ix, 'tm': '', 'refunds': a.rhops, 'got': 'opens' if got else 'fails'})
        for _ in range(2):
            hop, j, tm = r.randrange(n), r.randrange(n), r.choice(['before', 'after'])
            if r.random() < 0.5:
                j = hop
            got = a.attempt_refund(hop, j, tm)
            out.append({'n': n, 'hop': hop, 'nm': 'F', 'ix': j, 'tm': tm, 'refunds': a.rhops, 'got': 'opens' if got else 'fails'})
    return out


def main(tier: str, seed: int) -> int:
    rep = Report('C18', tier, seed)
    rep.rule = ('MC (Amhl.tla on SymCrypto.tla: a state machine in which any claimant may try to open any hop with any scalar known at '
                'that point - the final key, the partial secrets of the intermediate parties, a second chain\'s scalars, and what '
                'earlier openings released; and the holder of any hop\'s refund key may try the refund branch of any hop before / after the '
                'timeout): chains of 2..N hops x every subset of hops having refund keys (PTLC locks), every interleaving; invariants RefundOnlyOwn, OnlyRightToLeft, WrongScalarFails, '
                'RightScalarOnly, ReleaseExact, SetupConsistent, CascadeCompletes. Every attempt of every reachable state is '
                'replayed on a real chain: setup_amhl, make_adapter_witness per hop, decrypt_adapter with the concrete scalar, '
                'run_auth_scripts on that hop\'s signature lock; the real release cascade (decrypt_adapter + '
                'release_left_amhl_lock from the final key) must produce y_0 + .. + y_i for every hop, every view must pass '
                'check_setup, each tweak point is recomputed independently. traces: chains of 2..8 hops, with and without refund '
                'keys (PTLC locks), chains set up with sigflags 00 / 01 / 02 / 06 / 80, random attempt orders, judged by TLC.')
    rep.assumptions = ['symbolic algebra', 'party 0 (the originator) is the payer of hop 0 and samples every secret: its partial secret is not an adversarial input']
    quick = tier == 'quick'
    scncheck.mc(rep, 'Amhl', 'mc', INV, run_mc, consts={'MaxHops': 5 if quick else 6, 'MaxRefundHops': 4 if quick else 5}, workers=8)
    import multiprocessing as mp
    n = 2000 if quick else 12000
    with SafePool(14) as pool:
        cases = [c for ch in pool.map(record_random, [(seed * 67 + i, n // 28) for i in range(28)]) for c in ch]
    scncheck.judge(rep, 'Amhl', [], cases, 'random AMHL attempts', consts={'MaxHops': 0, 'MaxRefundHops': 0})
    return rep.finish()


def replay(path: str) -> int:
    import json
    obj = json.load(open(path))
    if obj.get('kind') == 'replay':
        got, _ = run_mc(obj['case'])
        print(got, 'expected', obj['case']['expect'])
        return 0 if got == obj['case']['expect'] else 1
    return 2
