-------------------------------- MODULE Codec --------------------------------
(***************************************************************************)
(* The VM's data encodings (C10): signed integers as big-endian two's     *)
(* complement byte strings of any length (BigInt.DecS / EncS / ValidEnc)   *)
(* and IEEE-754 binary32 floats as 4 big-endian bytes.                     *)
(*                                                                         *)
(* Model checking: Init chooses a case of the family named by Family; the  *)
(* invariants state the inverse laws.  Every case is printed with the      *)
(* encoding / decoding the specification assigns, for replay through       *)
(* int_to_bytes / bytes_to_int / float_to_bytes / bytes_to_float.          *)
(* Trace mode (Family = "trace"): cases recorded from the implementation   *)
(* (TRACE_FILE) are judged one by one; failing ids are printed.            *)
(***************************************************************************)
EXTENDS BigInt, Json, IOUtils, TLC

CONSTANTS Family, Emit
VARIABLE c          \* the case: a record [kind, ...]

\* ---- binary32 -------------------------------------------------------------
\* fields of a 4-byte pattern
FSign(b) == b[1] \div 128
FExp(b)  == (b[1] % 128) * 2 + b[2] \div 128
FMant(b) == (b[2] % 128) * 65536 + b[3] * 256 + b[4]
FClass(b) == IF FExp(b) = 255 THEN (IF FMant(b) = 0 THEN "inf" ELSE "nan")
             ELSE IF FExp(b) = 0 THEN (IF FMant(b) = 0 THEN "zero" ELSE "subnormal")
             ELSE "normal"
\* exact value of a finite pattern as <<sign, odd significand m, exponent e>> with value = (-1)^s * m * 2^e
\* (zero = <<s, 0, 0>>)
RECURSIVE OddNorm(_, _)
OddNorm(m, e) == IF m % 2 = 0 THEN OddNorm(m \div 2, e + 1) ELSE <<m, e>>
FValue(b) ==
    LET s == FSign(b) IN
    CASE FClass(b) = "zero" -> <<s, 0, 0>>
      [] FClass(b) = "subnormal" -> LET n == OddNorm(FMant(b), -149) IN <<s, n[1], n[2]>>
      [] FClass(b) = "normal" -> LET n == OddNorm(8388608 + FMant(b), FExp(b) - 150) IN <<s, n[1], n[2]>>
\* re-assembly of a pattern from its fields: the encoding of the value FValue(b)
FPack(s, e, m) == <<s * 128 + e \div 2, (e % 2) * 128 + m \div 65536, (m \div 256) % 256, m % 256>>
\* the pattern of a finite value <<s, m, e>> (m odd or 0) if it is representable
FEnc(v) ==
    IF v[2] = 0 THEN FPack(v[1], 0, 0)
    ELSE LET m == v[2] e == v[3]
             \* scale the significand up to 24 bits: m * 2^k with 2^23 <= m * 2^k < 2^24
             RECURSIVE Up(_, _)
             Up(x, k) == IF x >= 8388608 THEN <<x, k>> ELSE Up(x * 2, k + 1)
             u == Up(m, 0)
             ef == e - u[2] + 150
         IN IF ef >= 1 THEN FPack(v[1], ef, u[1] - 8388608)
            ELSE \* subnormal: value = mant * 2^-149
                 LET RECURSIVE Sh(_, _)
                     Sh(x, k) == IF k = 0 THEN x ELSE Sh(x * 2, k - 1)
                 IN FPack(v[1], 0, Sh(m, e + 149))

\* ---- families ---------------------------------------------------------------
Pow2Mag(k) == \* 2^k as a magnitude
    LET r == k % 8 q == k \div 8 IN <<2 ^ r>> \o [i \in 1..q |-> 0]
SmallD == -3..3
ExpClasses == 0..255
MantPatterns == {0, 1, 2, 3, 4194304, 4194305, 8388607, 8388606, 5592405, 2796202, 1048576, 65536, 256, 255, 127, 128}
                \cup {2 ^ k : k \in 0..22} \cup {8388607 - 2 ^ k : k \in 0..22}

Cases(z) ==
    CASE Family = "bytes12" -> { [kind |-> "dec", b |-> b] : b \in UNION {[1..k -> Byte] : k \in 1..2} }
      [] Family = "ints17"  -> { [kind |-> "enc", x |-> FromInt(n)] : n \in -131072..131072 }
      [] Family = "pow2"    -> { [kind |-> "enc", x |-> Add(MkInt(s = 1, Pow2Mag(k)), FromInt(d))] :
                                  k \in 0..512, d \in SmallD, s \in {0, 1} }
      [] Family = "f32"     -> { [kind |-> "f32", b |-> FPack(s, e, m)] : s \in {0, 1}, e \in ExpClasses, m \in MantPatterns }
      [] Family = "trace"   -> {}

TraceLog == JsonDeserialize(IOEnv.TRACE_FILE)

Init == IF Family = "trace" THEN c \in {[kind |-> "t", i |-> i] : i \in 1..Len(TraceLog)}
        ELSE c \in Cases(0)
Next == UNCHANGED c
Spec == Init /\ [][Next]_c

\* ---- laws ---------------------------------------------------------------------
\* decoding is total on non-empty strings and re-encoding gives a valid (minimal) encoding
DecLaw(b) == LET x == DecS(b) IN
             /\ ValidEnc(b, x) \/ Len(b) > Len(EncS(x)) + 1     \* b itself may be padded arbitrarily
             /\ DecS(EncS(x)) = x
             /\ Len(EncS(x)) <= Len(b)
             /\ (b[1] >= 128) = x.neg \/ IsZero(x)
EncLaw(x) == LET b == EncS(x) IN
             /\ DecS(b) = x
             /\ ValidEnc(b, x)
             /\ ((b[1] >= 128) <=> x.neg)
             /\ (Len(b) > 1 => ~((b[1] = 0 /\ b[2] < 128) \/ (b[1] = 255 /\ b[2] >= 128)))   \* minimal
F32Law(b) == FClass(b) \in {"nan", "inf"} \/ FEnc(FValue(b)) = b

InvLaws == CASE c.kind = "dec" -> DecLaw(c.b)
             [] c.kind = "enc" -> EncLaw(c.x)
             [] c.kind = "f32" -> F32Law(c.b)
             [] OTHER -> TRUE

\* what the specification assigns to a case (for replay)
Out == CASE c.kind = "dec" -> [kind |-> "dec", b |-> c.b, neg |-> DecS(c.b).neg, mag |-> DecS(c.b).mag, min |-> EncS(DecS(c.b))]
         [] c.kind = "enc" -> [kind |-> "enc", neg |-> c.x.neg, mag |-> c.x.mag, b |-> EncS(c.x)]
         [] c.kind = "f32" -> [kind |-> "f32", b |-> c.b, cls |-> FClass(c.b),
                                val |-> IF FClass(c.b) \in {"nan", "inf"} THEN <<FSign(c.b), 0, 0>> ELSE FValue(c.b)]
EmitCase == Family = "trace" \/ ~Emit \/ PrintT(ToJson(Out))

\* ---- trace cases: records from the implementation ---------------------------------
\*  [k |-> "i2b", neg, mag, b]        int_to_bytes(n) = b
\*  [k |-> "b2i", b, neg, mag]        bytes_to_int(b) = n
\*  [k |-> "b2f", b, cls, val]        bytes_to_float(b) has class cls and exact value val
\*  [k |-> "f2b", b, back]            float_to_bytes(bytes_to_float(b)) = back
TraceOK(t) ==
    CASE t.k = "i2b" -> ValidEnc(t.b, MkInt(t.neg, t.mag))
      [] t.k = "b2i" -> DecS(t.b) = MkInt(t.neg, t.mag)
      [] t.k = "b2f" -> /\ t.cls = FClass(t.b)
                        /\ (t.cls \in {"nan"} \/ (t.cls = "inf" /\ t.val[1] = FSign(t.b)) \/ t.val = FValue(t.b))
      [] t.k = "f2b" -> IF FClass(t.b) = "nan" THEN FClass(t.back) = "nan" ELSE t.back = t.b
TraceCheck == Family # "trace" \/ TraceOK(TraceLog[c.i]) \/ PrintT(ToJson([bad |-> c.i]))
=============================================================================
