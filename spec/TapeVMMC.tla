------------------------------ MODULE TapeVMMC ------------------------------
(***************************************************************************)
(* Exhaustive model checking of TapeVM over finite program families.      *)
(* Init chooses a configuration (scripts, limits, flags, cache) from the  *)
(* family named by the constant Family; Next is the VM's transition       *)
(* function.  Every terminal state is printed as one JSON record          *)
(* (program, configuration, executed-instruction history, outcome) which  *)
(* the harness replays through the real implementation (spec -> code).    *)
(***************************************************************************)
EXTENDS TapeVM, Isa, Json, SequencesExt, IOUtils

CONSTANTS Family,      \* name of the program family
          Bound,       \* nesting bound of the family
          Shard, NShards,   \* this run explores configurations with index % NShards = Shard
          Emit         \* print terminal states as JSON

VARIABLE vm

\* data prepared by the harness for families that use cryptographic instructions on fixed
\* inputs: primitive results (prim) and the probe programs of family "cfg" (probes)
MCData == IF "MC_HINT_FILE" \in DOMAIN IOEnv THEN JsonDeserialize(IOEnv.MC_HINT_FILE)
          ELSE [prim |-> <<>>, probes |-> <<>>, sc |-> <<>>, now |-> <<>>, contracts |-> <<>>]
MCHint == [NoHint EXCEPT !.prim = MCData.prim]

----------------------------------------------------------------------------
\* instruction atoms
T == <<1>>
F == <<0>>
Mk(j) == <<2, j>>               \* PUSH0 j : a marker
RET == <<48>>
RAISE == <<0, 32>>              \* FALSE VERIFY
POP0 == <<6>>
EMPTY == <<3, 0>>                \* PUSH1 of zero bytes: an empty item
VERIFY == <<32>>
CALL(h) == <<42, h>>
EVAL == <<45>>
IFB(b) == IBlock(43, b)
IFELSE(a, b) == IBlock2(44, a, b)
TRY(a, b) == IBlock2(61, a, b)
LOOP(b) == IBlock(69, b)
DEFN(h, b) == IDef(h, b)
WCACHE(k, n) == <<9, Len(k)>> \o k \o <<n>>
RCACHE(k) == <<10, Len(k)>> \o k

Cat(S, U) == {a \o b : a \in S, b \in U}

\* the nine ways a body can be wrapped in a construct (RETURN scoping, C06)
Wrap(b) == { T \o IFB(b),
             T \o IFELSE(b, Mk(9)),
             F \o IFELSE(Mk(9), b),
             TRY(b, Mk(8)),
             TRY(RAISE, b),
             T \o LOOP(b \o F),
             DEFN(0, b) \o CALL(0),
             IPush(b) \o EVAL }

\* RecRaise: a function that raises before its own TRY when called with false, and calls itself with false inside that
\* TRY: the inner call is left by an exception that the outer invocation catches - the outer invocation must go on
\* after its TRY (its definition tape's pointer is restored when a call is left by an exception)
RecRaise == DEFN(2, VERIFY \o TRY(F \o CALL(2), <<>>) \o Mk(2)) \o T \o CALL(2)
B0(z) == { <<>>, Mk(1), RET, RAISE, Mk(1) \o RET, RET \o Mk(1), DEFN(1, Mk(7)), CALL(1), RecRaise }
RECURSIVE Bk(_)
Bk(k) == IF k = 0 THEN B0(0)
         ELSE LET inner == Bk(k - 1) IN
              UNION { {w, w \o Mk(10 + k)} : w \in UNION {Wrap(b) : b \in inner \ {<<>>}} } \cup {Mk(10 + k)}

----------------------------------------------------------------------------
\* Family "ctl": control flow.  One script, default limits.
CtlScripts(z) == Bk(Bound)
CtlCfg(s) == [BaseCfg EXCEPT !.scripts = <<s>>, !.hist = TRUE, !.maxItems = 64, !.maxItemSize = 64, !.callLimit = 4]

----------------------------------------------------------------------------
\* Family "auth": authorization over script lists (C01)
W1(z) == Bk(1) \cup { DEFN(0, Mk(5)), DEFN(0, RET), DEFN(0, T), WCACHE(<<107>>, 0), Mk(5) \o WCACHE(<<107>>, 1),
                   Mk(5), Mk(5) \o Mk(5), T, Mk(5) \o RET, T \o IFB(Mk(5) \o RET),
                   DEFN(0, CALL(0)) \o TRY(CALL(0), <<>>), DEFN(2, <<>>) \o CALL(2) \o CALL(2),
                   EMPTY, EMPTY \o Mk(5), EMPTY \o EMPTY \o T }        \* zero-length junk below the expected items
LockHead(z) == { <<>>, T \o IFB(<<>>), T \o IFB(Mk(4) \o POP0), TRY(<<>>, <<>>), F \o IFELSE(<<>>, <<>>), CALL(0), RCACHE(<<107>>),
              DEFN(0, Mk(5)), T \o LOOP(F) \o POP0 \o POP0, IPush(T \o VERIFY) \o EVAL, TRY(CALL(0), <<>>),
              T \o IFB(RET) }
LockTail(z) == { Mk(5) \o <<34>> \o T,         \* PUSH 5; EQUAL_VERIFY; TRUE   (expects the witness's 5)
              T, <<34>> \o T, VERIFY \o T, Mk(5) \o <<34>> \o Mk(5) \o <<34>> \o T, <<>> }
Locks(z) == Cat(LockHead(0), LockTail(0))
Limits == { <<64, 64, 4>>, <<2, 64, 4>>, <<64, 64, 1>>, <<64, 64, 2>> }
AuthCfg(ss, lim) == [BaseCfg EXCEPT !.scripts = ss, !.auth = TRUE, !.hist = TRUE,
                                    !.maxItems = lim[1], !.maxItemSize = lim[2], !.callLimit = lim[3]]

\* raw byte strings over a 13-byte alphabet
RawAlpha == {0, 1, 2, 3, 6, 32, 42, 43, 45, 48, 61, 69, 255}
RawStr(n) == UNION {[1..k -> RawAlpha] : k \in 0..n}

----------------------------------------------------------------------------
\* Family "limits": resource-hungry programs x limit triples (C07)
P1(n) == <<3, n>> \o [i \in 1..n |-> 7]
SelfRec == DEFN(0, CALL(0)) \o CALL(0)
SelfEval == IPush(<<29, 45>>) \o <<29, 45>>          \* push "DUP EVAL"; DUP; EVAL
ResAtoms(z) == { T, F, P1(0), P1(1), P1(2), P1(4), <<28, 0>>, <<28, 1>>, <<28, 3>>, <<29>>, <<55>>,
              T \o LOOP(<<29>>), T \o LOOP(T), T \o LOOP(<<>>), SelfRec, SelfEval,
              T \o IFB(T \o IFB(T \o IFB(T))), WCACHE(<<107>>, 2), RCACHE(<<107>>), RCACHE(<<107>>) \o RCACHE(<<107>>),
              <<54, 2>>, <<54, 3>>, <<52, 0, 1>>, <<52, 1, 3>>, <<3, 5, 1>>, <<43, 0>>, <<4, 1>>, POP0,
              DEFN(1, <<29>> \o CALL(1)) \o CALL(1), <<51>>, <<8>>,
              DEFN(0, TRY(RAISE, CALL(0))) \o CALL(0), DEFN(0, TRY(CALL(0), T)) \o CALL(0), DEFN(0, T \o IFB(CALL(0))) \o CALL(0),
              \* operand size bytes with the top bit set: the read must fail, never move the pointer backwards
              <<49, 254>>, <<50, 254>>, <<50, 128>>, <<3, 255>>, <<10, 254>>, <<17, 255>>, <<64, 128>>, <<9, 254>>, RecRaise,
              \* bitwise instructions on operands of different lengths, either one on top (zero padding must end)
              P1(2) \o P1(1) \o <<88>>, P1(1) \o P1(2) \o <<88>>, P1(2) \o P1(1) \o <<87>>, P1(1) \o P1(2) \o <<86>> }
RECURSIVE Progs(_, _)
Progs(A, n) == IF n = 0 THEN {<<>>} ELSE LET R == Progs(A, n - 1) IN R \cup Cat(R, A)
LimTriples == {<<a, b, c>> : a \in {1, 2, 3}, b \in {1, 2, 4}, c \in {1, 2, 3}}
LimCfg(s, lim) == [BaseCfg EXCEPT !.scripts = <<s>>, !.hist = TRUE,
                                  !.maxItems = lim[1], !.maxItemSize = lim[2], !.callLimit = lim[3]]

----------------------------------------------------------------------------
\* Family "cache": cache-writing instructions with keys spelling protected names (C08)
KS == KSigfield(1)
ProtKeys == { KS, KTimestamp, KReturned, <<>>, KS \o <<0>>, <<107>> }
CacheAtoms(z) == UNION { { Mk(3) \o WCACHE(k, 1), WCACHE(k, 0), RCACHE(k), <<11, Len(k)>> \o k,
                        IPush(k) \o <<12>>, IPush(k) \o <<13>>, <<64, Len(k)>> \o k } : k \in ProtKeys }
              \cup { Mk(3) \o POP0, Mk(3) \o Mk(4) \o <<7, 2>>, TRY(RAISE, <<>>), TRY(RAISE, RCACHE(<<69>>)), RET, <<5, 0>>, <<5, 1>>,
                     T \o IFB(RET) }
ScProt == << [k |-> KS, t |-> "bytes", v |-> <<170, 187>>, neg |-> FALSE, items |-> <<>>],
             [k |-> KTimestamp, t |-> "int", v |-> <<1, 0>>, neg |-> FALSE, items |-> <<>>] >>
CacheCfg(s, r0) == [BaseCfg EXCEPT !.scripts = <<s>>, !.hist = TRUE, !.sc = ScProt, !.now = <<1, 0>>, !.ret0 = r0]

----------------------------------------------------------------------------
\* Family "nop": every unassigned opcode x every count byte x stack depths 0..3 (C20)
Pushes(d) == [i \in 1..(2 * d) |-> IF i % 2 = 1 THEN 2 ELSE 20 + (i \div 2)]
NopProgs(z) == { Pushes(d) \o <<c, n>> \o Mk(1) : d \in 0..3, c \in NOps..255, n \in 0..255 }
NopCfg(s) == [BaseCfg EXCEPT !.scripts = <<s>>, !.hist = TRUE]

----------------------------------------------------------------------------
\* Family "alu": every hint-free data instruction (integer arithmetic, comparison, bitwise, stack permutation,
\* concat / split, copy, size, logic) on every pair of boundary items over a sentinel, with every boundary operand (C06)
AluVals(z) == { <<>>, <<0>>, <<1>>, <<2>>, <<127>>, <<128>>, <<255>>, <<0, 128>>, <<255, 127>>, <<128, 0>>, <<1, 0>>, <<0, 0, 3>> }
AluOps0 == { <<o>> : o \in {6, 8, 18, 20, 29, 32, 33, 34, 46, 51, 53, 55, 56, 57, 58, 62, 63, 86, 87, 88} }
AluCounts == {0, 1, 2, 3, 128, 255}
AluOps1 == { <<o, n>> : o \in {7, 14, 15, 16, 28, 54}, n \in AluCounts } \cup { <<52, i, j>> : i \in {0, 1, 2, 255}, j \in {0, 1, 3} }
\* DIV_INT / MOD_INT: size byte + divisor bytes (0, 1, 3, -3, -128, -256, 200, -1, empty)
AluDivisors == { <<0>>, <<1, 0>>, <<1, 1>>, <<1, 3>>, <<1, 253>>, <<1, 128>>, <<2, 255, 0>>, <<2, 0, 200>>, <<1, 255>> }
AluOpsD == { <<o>> \o d : o \in {17, 19}, d \in AluDivisors }
AluProgs(z) == { Mk(9) \o IPush(a) \o IPush(b) \o o : a \in AluVals(0), b \in AluVals(0), o \in AluOps0 \cup AluOps1 \cup AluOpsD }
AluCfg(s) == [BaseCfg EXCEPT !.scripts = <<s>>, !.hist = TRUE]

----------------------------------------------------------------------------
\* Family "cfg": a probe instruction sequence inside every nesting of constructs, under
\* embedder configurations that switch the probed behaviour on / off (C09).  A probe
\* record (from the harness): [code, flags (list of <<key, value>> settings to try),
\* msib, mroot (sibling commitment and root for MERKLEVAL), tpk, troot (TAPROOT)]
CWrap(b) == { T \o IFB(b), T \o IFELSE(b, <<>>), F \o IFELSE(<<>>, b), TRY(b, <<>>), TRY(RAISE, b),
              T \o LOOP(b \o F), DEFN(0, b) \o CALL(0), IPush(b) \o EVAL }
RECURSIVE CNest(_, _)
CNest(S, k) == IF k = 0 THEN S ELSE CNest(UNION {CWrap(b) : b \in S}, k - 1)
Inner(pr) == { pr.code,
               IPush(pr.msib) \o IPush(pr.code) \o <<60>> \o pr.mroot,            \* MERKLEVAL
               IPush(pr.code) \o IPush(pr.tpk) \o IPush(pr.troot) \o <<91, 0>> }  \* TAPROOT script path
CfgProgs(pr) == UNION { CNest(Inner(pr), k) : k \in 0..Bound }
                \cup { w \o pr.code : w \in CWrap(Mk(3)) }                       \* probe after a construct
FlagsOf(setting) == [k \in {setting[i][1] : i \in 1..Len(setting)} |->
                        setting[CHOOSE i \in 1..Len(setting) : setting[i][1] = k][2]]
CfgCfg(s, setting, nsig) ==
    [BaseCfg EXCEPT !.scripts = <<s>>, !.hist = TRUE, !.flags = FlagsOf(setting), !.nsig = nsig,
                    !.sc = MCData.sc, !.now = MCData.now, !.callLimit = 8,
                    !.contracts = {MCData.contracts[i] : i \in 1..Len(MCData.contracts)}]

----------------------------------------------------------------------------
\* configurations of the chosen family, as a sequence so that they can be sharded
Configs(z) ==
    CASE Family = "ctl"    -> { CtlCfg(s) : s \in CtlScripts(0) }
      [] Family = "auth2"  -> { AuthCfg(<<w, k>>, lim) : w \in W1(0), k \in Locks(0), lim \in Limits }
      [] Family = "auth3"  -> { AuthCfg(<<w, x, k>>, <<64, 64, 4>>) : w \in W1(0), x \in {RET, Mk(5), DEFN(0, T), T \o IFB(RET)}, k \in Locks(0) }
      [] Family = "auth1"  -> { AuthCfg(<<k>>, lim) : k \in Locks(0) \cup W1(0), lim \in Limits }
      [] Family = "raw"    -> { AuthCfg(<<a>>, <<64, 64, 4>>) : a \in RawStr(3) }
                              \cup { AuthCfg(<<a, b>>, <<64, 64, 4>>) : a \in RawStr(2), b \in RawStr(3) }
      [] Family = "limits" -> { LimCfg(s, lim) : s \in Progs(ResAtoms(0), Bound), lim \in LimTriples }
      [] Family = "cache"  -> { CacheCfg(s, r0) : s \in Progs(CacheAtoms(0), Bound), r0 \in {FALSE} }
      [] Family = "nop"    -> { NopCfg(s) : s \in NopProgs(0) }
      [] Family = "alu"    -> { AluCfg(s) : s \in AluProgs(0) }
      [] Family = "cfg"    -> UNION { { CfgCfg(s, MCData.probes[i].flags[j], nsig) :
                                          s \in CfgProgs(MCData.probes[i]), j \in 1..Len(MCData.probes[i].flags), nsig \in {0, 2} }
                                      : i \in 1..Len(MCData.probes) }

Init == \E c \in Configs(0) : vm = InitVM(c)
Next == vm.status = "run" /\ vm' = Step(vm, MCHint)
Spec == Init /\ [][Next]_vm

----------------------------------------------------------------------------
BcSeq(bc) == SetToSeq({<<k, bc[k].l, bc[k].v>> : k \in DOMAIN bc})
Summary(v) == [scripts |-> v.cfg.scripts, auth |-> v.cfg.auth,
               lim |-> <<v.cfg.maxItems, v.cfg.maxItemSize, v.cfg.callLimit>>,
               ret0 |-> v.cfg.ret0, sc |-> v.cfg.sc, now |-> v.cfg.now,
               flags |-> SetToSeq({<<k, v.cfg.flags[k]>> : k \in DOMAIN v.cfg.flags}), nsig |-> v.cfg.nsig,
               contracts |-> SetToSeq(v.cfg.contracts),
               stack |-> v.stack, bc |-> BcSeq(v.bc), status |-> v.status, exc |-> v.exc,
               verdict |-> Verdict(v), ret |-> v.ret, hist |-> v.obs.hist, plug |-> v.obs.plug]

EmitDone == vm.status = "run" \/ ~Emit \/ PrintT(ToJson(Summary(vm)))

\* ---- invariants ------------------------------------------------------------
InvStackBounded == StackBounded(vm)
InvItemBounded  == ItemBounded(vm)
InvPcInRange    == PcInRange(vm)
InvDepthBounded == DepthBounded(vm)
InvLoopBounded  == LoopBounded(vm)
InvConfigUniform == ConfigUniform(vm)
InvReturnScoped == ReturnScoped(vm)
\* only documented exception classes; never a missing primitive in a family
InvNoPrimMiss == vm.exc \notin {"PRIMMISS", "BADHINT"}

\* C01: a top-level tape is always at an instruction boundary of its own script, or
\* at its end; and it can be at its end early only through its own RETURN
TopTape(v) == v.tapes[v.frames[1].tid]
InvTopAtBoundary ==
    (vm.status = "run" /\ ~Bad(vm) /\ Len(vm.frames) = 1) =>
        LET t == TopTape(vm) IN t.pc = Len(t.code) \/ t.pc \in Boundaries(t.code)
\* C01 (action form): a step moves the top-level pointer to the next boundary, or
\* to the end with the RETURN flag up, or an exception is propagating
NoSkip ==
    [][ (vm.status = "run" /\ vm'.status = "run" /\ ~Bad(vm') /\ Len(vm.frames) = 1 /\ Len(vm'.frames) = 1
          /\ vm'.sidx = vm.sidx /\ ~Bad(vm))
        => LET t == TopTape(vm) u == TopTape(vm') IN
           \/ u.pc = t.pc
           \/ u.pc = t.pc + InstrLen(t.code, t.pc)
           \/ (u.pc = Len(u.code) /\ vm'.ret) ]_vm
\* C01: the verdict is a function of the terminal state
InvVerdictExact ==
    vm.status # "run" => (Verdict(vm) <=> (vm.status = "done" /\ vm.stack = << <<255>> >>))
\* every script of a completed authorization started at its first instruction
InvAllScriptsRan == (vm.status = "done" /\ vm.cfg.auth) => vm.sidx = Len(vm.cfg.scripts)

\* C08: the embedder's configuration (string-keyed cache included) never changes
CfgFrozen == [][vm'.cfg = vm.cfg]_vm

\* C09: a flag table changes only when a flag instruction executes or when run_tape
\* (re)initialises the table of the tape it enters
FlagsOnlyByFlagOps ==
    [][ \A i \in 1..Len(vm.fheap) :
          vm'.fheap[i] # vm.fheap[i] =>
             \/ (StepKind(vm) = "exec" /\ vm'.obs.flagops = vm.obs.flagops + 1 /\ i = TT(vm).fid)
             \/ (Len(vm'.frames) >= 1 /\ vm'.frames # vm.frames /\ i = TT(vm').fid) ]_vm
\* C09: as long as no flag instruction has executed, every running tape sees exactly the
\* embedder's settings on top of the defaults
InvEmbedderFlags ==
    (vm.status = "run" /\ vm.obs.flagops = 0 /\ ~vm.cfg.auth) =>
        \A i \in 1..Len(vm.frames) :
            LET tbl == vm.fheap[vm.tapes[vm.frames[i].tid].fid] IN
            \A k \in DOMAIN vm.cfg.flags : k \in DOMAIN tbl /\ tbl[k] = vm.cfg.flags[k]
\* C09: signature-extension plugins run exactly once before each signature-related instruction
SigOps == {5, 35, 36, 70, 71, 72, 89, 90}
PluginOnce ==
    [][ LET d == vm'.obs.plug - vm.obs.plug IN
        IF vm.status = "run" /\ StepKind(vm) = "exec"
        THEN LET t == TT(vm) op == t.code[t.pc + 1] IN
             IF op \in {5, 35, 36, 70, 71, 72} THEN d = vm.cfg.nsig
             ELSE IF op \in {89, 90} THEN d = (IF FlagOn(Flags(vm), FInt(10)) \/ FInt(10) \notin DOMAIN Flags(vm) THEN vm.cfg.nsig ELSE 0)
             ELSE IF op = 91 THEN d \in {0, vm.cfg.nsig}
             ELSE d = 0
        ELSE d = 0 ]_vm

\* C20: an unassigned opcode removes `count` items and has no other effect
NopExact ==
    [][ (vm.status = "run" /\ ~Bad(vm) /\ Len(vm.frames) = 1 /\ StepKind(vm) = "exec"
         /\ TopTape(vm).code[TopTape(vm).pc + 1] >= NOps /\ TopTape(vm).pc + 2 <= Len(TopTape(vm).code))
        => LET t == TopTape(vm)
               n == S8(t.code[t.pc + 2])
           IN IF n < 0 THEN vm'.exc = SEE /\ vm'.stack = vm.stack
              ELSE IF n > Len(vm.stack) THEN vm'.exc = "IndexError" /\ vm'.stack = <<>>
              ELSE /\ vm'.exc = "none"
                   /\ vm'.stack = SubSeq(vm.stack, 1, Len(vm.stack) - n)
                   /\ vm'.bc = vm.bc /\ vm'.ret = vm.ret /\ vm'.fheap = vm.fheap /\ vm'.dheap = vm.dheap
                   /\ TopTape(vm').pc = t.pc + 2 /\ Len(vm'.frames) = 1 ]_vm
=============================================================================
