------------------------------- MODULE Bytes -------------------------------
(***************************************************************************)
(* Byte strings are sequences over 0..255.  Operators shared by every     *)
(* module: unsigned big-endian decoding of short operands, slicing,       *)
(* zero-padded bitwise combination, truthiness.                            *)
(***************************************************************************)
EXTENDS Integers, Sequences, Bitwise

Byte == 0..255

IsBytes(b) == b \in Seq(Byte)

Slice(s, from, to) == \* 0-based half-open [from, to), like Python s[from:to]
    IF to <= from THEN <<>> ELSE SubSeq(s, from + 1, to)

Take(s, n) == Slice(s, 0, n)
Drop(s, n) == Slice(s, n, Len(s))

\* unsigned big-endian value of at most 3 bytes (fits TLC's 32-bit integers)
U8(b)  == b[1]
U16(b) == b[1] * 256 + b[2]
RECURSIVE UInt(_)
UInt(b) == IF b = <<>> THEN 0 ELSE UInt(Take(b, Len(b) - 1)) * 256 + b[Len(b)]

\* n as k big-endian bytes (0 <= n < 256^k, k <= 3)
RECURSIVE UBytes(_, _)
UBytes(n, k) == IF k = 0 THEN <<>> ELSE UBytes(n \div 256, k - 1) \o <<n % 256>>

\* signed value of one byte (two's complement)
S8(x) == IF x >= 128 THEN x - 256 ELSE x

Truthy(b) == \E i \in 1..Len(b) : b[i] # 0       \* bytes_to_bool

True1  == <<255>>
False1 == <<0>>
Bool(b) == IF b THEN True1 ELSE False1

PadRight(b, n) == b \o [i \in 1..(n - Len(b)) |-> 0]

MaxI(a, b) == IF a >= b THEN a ELSE b
MinI(a, b) == IF a <= b THEN a ELSE b

XorB(a, b) == LET n == MaxI(Len(a), Len(b)) pa == PadRight(a, n) pb == PadRight(b, n)
              IN [i \in 1..n |-> pa[i] ^^ pb[i]]
OrB(a, b)  == LET n == MaxI(Len(a), Len(b)) pa == PadRight(a, n) pb == PadRight(b, n)
              IN [i \in 1..n |-> pa[i] | pb[i]]
AndB(a, b) == LET n == MaxI(Len(a), Len(b)) pa == PadRight(a, n) pb == PadRight(b, n)
              IN [i \in 1..n |-> pa[i] & pb[i]]
NotB(a)    == [i \in 1..Len(a) |-> 255 - a[i]]

Rev(s) == [i \in 1..Len(s) |-> s[Len(s) + 1 - i]]

\* bit i (0 = least significant) of byte x
Bit(x, i) == (x \div (2 ^ i)) % 2 = 1

RECURSIVE Concat(_)
Concat(ss) == IF ss = <<>> THEN <<>> ELSE Head(ss) \o Concat(Tail(ss))
=============================================================================
