------------------------------- MODULE BigInt -------------------------------
(***************************************************************************)
(* Unbounded integers as sign + magnitude, the magnitude a big-endian     *)
(* byte sequence without leading zeros (zero = <<>>).  TLC integers are   *)
(* 32 bit, so everything the VM does with script integers (decode, add,   *)
(* subtract, compare, encode) is done on limbs here.                       *)
(***************************************************************************)
EXTENDS Bytes, TLC

RECURSIVE Norm(_)
Norm(m) == IF m # <<>> /\ m[1] = 0 THEN Norm(Tail(m)) ELSE m

\* -1 / 0 / 1 on normalised magnitudes
RECURSIVE CmpSame(_, _, _)
CmpSame(a, b, i) == IF i > Len(a) THEN 0
                    ELSE IF a[i] < b[i] THEN -1
                    ELSE IF a[i] > b[i] THEN 1
                    ELSE CmpSame(a, b, i + 1)
CmpMag(a, b) == IF Len(a) < Len(b) THEN -1 ELSE IF Len(a) > Len(b) THEN 1 ELSE CmpSame(a, b, 1)

PadLeft(m, n) == [i \in 1..(n - Len(m)) |-> 0] \o m

\* a + b on magnitudes: digits from the right with a carry
RECURSIVE AddR(_, _, _, _, _)
AddR(a, b, i, c, acc) == \* a, b same length n; i runs n..1
    IF i = 0 THEN (IF c = 0 THEN acc ELSE <<c>> \o acc)
    ELSE LET s == a[i] + b[i] + c IN AddR(a, b, i - 1, s \div 256, <<s % 256>> \o acc)
AddMag(a, b) == LET n == MaxI(Len(a), Len(b)) IN Norm(AddR(PadLeft(a, n), PadLeft(b, n), n, 0, <<>>))

\* a - b on magnitudes, a >= b
RECURSIVE SubR(_, _, _, _, _)
SubR(a, b, i, br, acc) ==
    IF i = 0 THEN acc
    ELSE LET d == a[i] - b[i] - br IN
         IF d < 0 THEN SubR(a, b, i - 1, 1, <<d + 256>> \o acc)
                  ELSE SubR(a, b, i - 1, 0, <<d>> \o acc)
SubMag(a, b) == LET n == Len(a) IN Norm(SubR(a, PadLeft(b, n), n, 0, <<>>))

\* a * d on magnitudes, d one byte: digits from the right with a carry
RECURSIVE MulByteR(_, _, _, _, _)
MulByteR(a, d, i, c, acc) == IF i = 0 THEN (IF c = 0 THEN acc ELSE <<c>> \o acc)
                             ELSE LET s == a[i] * d + c IN MulByteR(a, d, i - 1, s \div 256, <<s % 256>> \o acc)
MulByte(a, d) == Norm(MulByteR(a, d, Len(a), 0, <<>>))
\* a * b on magnitudes: Horner over the bytes of b (acc * 256 + a * b[i])
RECURSIVE MulMagR(_, _, _, _)
MulMagR(a, b, i, acc) == IF i > Len(b) THEN acc
                         ELSE MulMagR(a, b, i + 1, AddMag(IF acc = <<>> THEN <<>> ELSE acc \o <<0>>, MulByte(a, b[i])))
MulMag(a, b) == IF a = <<>> \/ b = <<>> THEN <<>> ELSE MulMagR(a, b, 1, <<>>)

MkInt(neg, mag) == [neg |-> neg /\ mag # <<>>, mag |-> mag]
Zero == MkInt(FALSE, <<>>)
IsZero(x) == x.mag = <<>>

Neg(x) == MkInt(~x.neg, x.mag)

Add(x, y) ==
    IF x.neg = y.neg THEN MkInt(x.neg, AddMag(x.mag, y.mag))
    ELSE LET c == CmpMag(x.mag, y.mag) IN
         IF c = 0 THEN Zero
         ELSE IF c > 0 THEN MkInt(x.neg, SubMag(x.mag, y.mag))
         ELSE MkInt(y.neg, SubMag(y.mag, x.mag))
Sub(x, y) == Add(x, Neg(y))
Mul(x, y) == MkInt(x.neg # y.neg, MulMag(x.mag, y.mag))

Less(x, y) ==
    IF x.neg # y.neg THEN x.neg
    ELSE IF x.neg THEN CmpMag(x.mag, y.mag) > 0 ELSE CmpMag(x.mag, y.mag) < 0
Leq(x, y) == ~Less(y, x)

\* small values to and from TLC integers (|n| < 2^23 each way)
FromNat(n) == MkInt(FALSE, Norm(UBytes(n % 16777216, 3)))
FromInt(n) == IF n < 0 THEN MkInt(TRUE, Norm(UBytes((-n) % 16777216, 3))) ELSE FromNat(n)
IsSmall(x) == Len(x.mag) <= 3
ToInt(x)   == IF x.neg THEN -UInt(x.mag) ELSE UInt(x.mag)

\* unsigned big-endian byte string -> integer  (int.from_bytes(b, 'big'))
FromU(b) == MkInt(FALSE, Norm(b))

\* two's complement signed big-endian byte string -> integer (bytes_to_int)
Compl(b) == [i \in 1..Len(b) |-> 255 - b[i]]
DecS(b) == IF b[1] < 128 THEN MkInt(FALSE, Norm(b))
           ELSE MkInt(TRUE, AddMag(Norm(Compl(b)), <<1>>))

\* the minimal two's complement encoding (what int_to_bytes is documented to give)
Pow256(n) == <<1>> \o [i \in 1..n |-> 0]       \* 256^n as a magnitude
EncS(x) ==
    IF IsZero(x) THEN <<0>>
    ELSE IF ~x.neg THEN (IF x.mag[1] >= 128 THEN <<0>> \o x.mag ELSE x.mag)
    ELSE LET n == Len(x.mag)
             half == <<128>> \o [i \in 1..(n - 1) |-> 0]     \* 2^(8n-1)
             k == IF CmpMag(x.mag, half) > 0 THEN n + 1 ELSE n
         IN PadLeft(SubMag(Pow256(k), x.mag), k)

\* an encoding the VM may produce for x: decodes to x, sign bit right, at most one
\* byte longer than minimal (the implementation sizes with a floating log2)
ValidEnc(b, x) == /\ Len(b) >= 1
                  /\ DecS(b) = x
                  /\ Len(b) <= Len(EncS(x)) + 1
\* decimal text of an integer (long division of the magnitude by 10)
RECURSIVE Div10R(_, _, _, _)
Div10R(m, i, rem, acc) == IF i > Len(m) THEN <<acc, rem>>
                          ELSE LET cur == rem * 256 + m[i] IN Div10R(m, i + 1, cur % 10, Append(acc, cur \div 10))
Div10(m) == LET r == Div10R(m, 1, 0, <<>>) IN <<Norm(r[1]), r[2]>>
RECURSIVE MagDec(_)
MagDec(m) == IF m = <<>> THEN "" ELSE LET r == Div10(m) IN MagDec(r[1]) \o ToString(r[2])
DecStr(x) == IF IsZero(x) THEN "0" ELSE (IF x.neg THEN "-" ELSE "") \o MagDec(x.mag)
=============================================================================
