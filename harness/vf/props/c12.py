"""C12 - decompiling always terminates and round-trips compiler output."""
import multiprocessing as mp
from ..par import SafePool
from ..common import Report
from .. import asmcheck


def main(tier: str, seed: int) -> int:
    rep = Report('C12', tier, seed)
    rep.rule = ('MC (Asm.tla disassembler: InstrLen / Decodes / Canon / Listing): all 65,793 byte strings of length <= 2, all '
                'length-3 strings over one representative per decoder class (22^3) and a length-4/5 family of size-field '
                'classes (0,1,2,0x7f,0x80,0xff; PUSH2 lengths 0x8001, 0xfffd, 0xffff), invariant InvDis (Progress: every '
                'decoded length >= 1 and within the string; a decodable string re-assembles from its canonical program); thorough: ALL '
                '16,777,216 strings of length 3 (family disasm3x, one TLC case per two-byte prefix: InvDis on each, decodes-or-not '
                'compared with decompile_script, recompilation must give the bytes back); '
                'every string is fed to decompile_script under a watchdog: must terminate, listing-or-error must agree, the '
                'listing must equal the specified one line by line, and compile(listing) must give the bytes back. The C11 '
                'families (struct, operands) are replayed on the listing side too. traces: random / mutated strings up to 70 '
                'KiB, pushes and block bodies of exactly 2^7-1 .. 2^7+1, 2^8-1 .. 2^8+1, 2^15-1 .. 2^15+1, 2^16-2, 2^16-1 bytes, every builder output and repository vector: termination, Decodes(b) <=> listing, compile(decompile(b)) = b '
                'judged by TLC.')
    rep.assumptions = ['termination is observed with a per-call watchdog (3 s for strings of <= 5 bytes, 20 s for large ones)']
    quick = tier == 'quick'
    asmcheck.mc_family(rep, 'disasm2', 'dis')
    asmcheck.mc_family(rep, 'disasm4', 'dis')
    asmcheck.mc_family(rep, 'operands', 'dis', seed)
    asmcheck.mc_family(rep, 'struct', 'dis', seed)
    if not quick:
        asmcheck.mc_family(rep, 'disasm3', 'dis')
        asmcheck.mc_dis3x(rep)
    rep.exhaustive = True
    corpus = asmcheck.builder_corpus()
    rep.extra['corpus_scripts'] = len(corpus)
    n = 3000 if quick else 60000
    jobs = [(seed * 7919 + i, n // 56, 4000 if quick else 70000, corpus) for i in range(56)]
    with SafePool(14) as pool:
        cases = [c for ch in pool.map(asmcheck._record_dis_chunk, jobs) for c in ch]
    # the corpus itself: every builder output and vector must round-trip
    cases += asmcheck.boundary_dis_cases()
    ts = asmcheck._impl()
    for b in corpus:
        st, lines = asmcheck.with_timeout(lambda: ts.decompile_script(b), 20)
        rel = []
        if st == 'ok':
            st2, back = asmcheck.with_timeout(lambda: ts.compile_script('\n'.join(lines)), 20)
            rel = list(back) if st2 == 'ok' else [999]
        cases.append({'k': 'dis', 'p': [], 'accepted': False, 'got': [], 'b': list(b), 'ok': st == 'ok', 'relisted': rel, 'src': '',
                      'timeout': st == 'timeout'})
    rep.sample({'recorded_string': bytes(cases[1]['b']).hex()[:120], 'decompiled': cases[1]['ok']})
    asmcheck.judge(rep, cases, 'byte strings')
    return rep.finish()


def replay(path: str) -> int:
    import json
    obj = json.load(open(path))
    if obj.get('kind') == 'replay' and obj['record'].get('k') == 'dis':
        out = asmcheck._replay_dis([obj['record']])
        print(out)
        return 1 if out[0] else 0
    return 2
