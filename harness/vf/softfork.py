"""Installing / removing soft-fork ops in the real implementation (process-global
tables are snapshotted and restored) and the family of fork predicates."""
from __future__ import annotations
import contextlib

KINDS = ['never', 'always', 'alltrue', 'nonempty', 'topff']


def pred(kind: str, items: list) -> bool:
    """TRUE = the forked op accepts (mirrors TapeVM.ForkPred); items in pop order"""
    if kind == 'never':
        return True
    if kind == 'always':
        return False
    if kind == 'alltrue':
        return all(any(b for b in it) for it in items)
    if kind == 'nonempty':
        return all(len(it) > 0 for it in items)
    if kind == 'topff':
        return not items or items[0] == b'\xff'
    raise ValueError(kind)


def make_op(kind: str):
    def fork_op(tape, stack, cache):
        from tapescript.functions import bytes_to_int
        from tapescript.errors import sert
        count = bytes_to_int(tape.read(1))
        sert(count >= 0, 'count must not be negative')
        items = [stack.get() for _ in range(count)]
        sert(pred(kind, items), f'soft fork check {kind} failed')
    return fork_op


@contextlib.contextmanager
def installed(forks: dict, aliases: dict | None = None):
    """forks: {code: kind}.  Uses tools.add_soft_fork, restores every table afterwards."""
    import tapescript.functions as F
    import tapescript.parsing as P
    import tapescript.tools as T
    tables = [F.opcodes, F.nopcodes, F.opcodes_inverse, F.nopcodes_inverse, F.opcode_aliases, P.additional_opcodes]
    saved = [dict(t) for t in tables]
    try:
        for code, kind in (forks or {}).items():
            T.add_soft_fork(int(code), f'OP_FORK{code}', make_op(kind), list((aliases or {}).get(code, [])))
        yield
    finally:
        for t, s in zip(tables, saved):
            t.clear()
            t.update(s)
