------------------------------ MODULE Adapter ------------------------------
(***************************************************************************)
(* Adapter signatures (C17) on the symbolic algebra:                       *)
(*   MakePub(x, m, T)  = <<R, sa>>, R = r, sa = r + H(R+T, X, m) x         *)
(*   Check(X,T,m,R,sa) <=> sa G = R + H(R+T, X, m) X                       *)
(*   Decrypt(t, R, sa) = <<R + T, sa + t>>                                 *)
(*   Extract(s, sa)    = s - sa                                            *)
(* A case: who signs what for which tweak, what is altered before the      *)
(* check, and which scalar is used to decrypt.                             *)
(***************************************************************************)
EXTENDS SymCrypto, Json, IOUtils, TLC

CONSTANTS Family, Emit
VARIABLE c

X(k) == SVar(Atom("x", k))                      \* signer k's key (scalar = point)
Nonce(k, m) == SVar(Atom("r", k * 10 + m))      \* deterministic nonce of signer k for message m
\* tweaks: two independent secrets, and the edge scalars 1 and -1 (= L - 1)
Tw(i) == CASE i = 1 -> SVar(Atom("t", 1)) [] i = 2 -> SVar(Atom("t", 2)) [] i = 3 -> SNum(1) [] i = 4 -> SNum(Q - 1) [] i = 0 -> SZero

MakePub(k, m, T) == LET r == Nonce(k, m) IN <<r, SAdd(r, SMulAtom(Chal(SAdd(r, T), X(k), Msg(m)), X(k)))>>
Check(Xp, T, m, R, sa) == sa = SAdd(R, SMulAtom(Chal(SAdd(R, T), Xp, Msg(m)), Xp))
Decrypt(t, R, sa) == <<SAdd(R, t), SAdd(sa, t)>>
Extract(s, sa) == SSub(s, sa)
\* the construction OP_MAKE_ADAPTER_SIG_PRIVATE implements (finding F13): challenge over R, tweak already added
MakePrvAsCoded(k, m, t) == LET r == SVar(Atom("rp", k * 10 + m)) IN
                           <<r, SAdd(SAdd(t, r), SMulAtom(Chal(r, X(k), Msg(m)), X(k)))>>

\* ---- a case --------------------------------------------------------------------------------
\*  [k signer, m message, t tweak index, alt what is altered before the check, d tweak index used to decrypt]
Alts == {"none", "sa", "R", "T", "m", "X"}
Cases(z) == [k : {1, 2}, m : {1, 2}, t : {1, 2, 3, 4}, alt : Alts, d : {0, 1, 2, 3, 4}, ctor : {"pub"}]
            \cup [k : {1, 2}, m : {1, 2}, t : {0}, alt : {"none"}, d : {0}, ctor : {"pub"}]          \* the edge scalar 0: T = identity
            \cup [k : {1}, m : {1}, t : {1, 3}, alt : {"none"}, d : {1, 3}, ctor : {"prv"}]

Other(i) == IF i = 1 THEN 2 ELSE 1
AdapterOf(s) == IF s.ctor = "pub" THEN MakePub(s.k, s.m, Tw(s.t)) ELSE MakePrvAsCoded(s.k, s.m, Tw(s.t))
CheckOutcome(s) ==
    LET a == AdapterOf(s) R == a[1] sa == a[2] IN
    CASE s.alt = "none" -> Check(X(s.k), Tw(s.t), s.m, R, sa)
      [] s.alt = "sa"   -> Check(X(s.k), Tw(s.t), s.m, R, SAdd(sa, SNum(1)))
      [] s.alt = "R"    -> Check(X(s.k), Tw(s.t), s.m, SAdd(R, SNum(1)), sa)
      [] s.alt = "T"    -> Check(X(s.k), SAdd(Tw(s.t), SNum(1)), s.m, R, sa)
      [] s.alt = "m"    -> Check(X(s.k), Tw(s.t), Other(s.m), R, sa)
      [] s.alt = "X"    -> Check(X(Other(s.k)), Tw(s.t), s.m, R, sa)
DecVerifies(s) == LET a == AdapterOf(s) dd == Decrypt(Tw(s.d), a[1], a[2]) IN Verify(X(s.k), Msg(s.m), dd[1], dd[2])
Extracted(s) == LET a == AdapterOf(s) dd == Decrypt(Tw(s.d), a[1], a[2]) IN Extract(dd[2], a[2])

TraceLog == JsonDeserialize(IOEnv.TRACE_FILE)
Init == IF Family = "trace" THEN c \in {[ctor |-> "t", i |-> i] : i \in 1..Len(TraceLog)} ELSE c \in Cases(0)
Next == UNCHANGED c
Spec == Init /\ [][Next]_c

\* ---- the laws -----------------------------------------------------------------------------------
Pub(s) == s.ctor = "pub" /\ s.t # 0
ZeroTweakIsASig == c.ctor = "pub" /\ c.t = 0 => LET a == AdapterOf(c) IN Verify(X(c.k), Msg(c.m), a[1], a[2])
CheckHonest == Pub(c) /\ c.alt = "none" => CheckOutcome(c)
CheckFailsIfAltered == Pub(c) /\ c.alt # "none" => ~CheckOutcome(c)
DecryptVerifies == Pub(c) => (DecVerifies(c) <=> c.d = c.t)
ExtractRecovers == Pub(c) => Extracted(c) = Tw(c.d)
AdapterNotASig == Pub(c) => LET a == AdapterOf(c) IN
                     ~Verify(X(c.k), Msg(c.m), a[1], a[2]) /\ ~Verify(X(c.k), Msg(c.m), SAdd(a[1], Tw(c.t)), a[2])
\* sensitivity: the construction of finding F13 does not pass the check and does not decrypt to a signature
F13Fails == c.ctor = "prv" => ~CheckOutcome(c) /\ ~DecVerifies(c)

\* t = 0: the "adapter" for T = identity would itself be a valid signature (ZeroTweakIsASig), so the constructor and the
\* check must refuse T = identity
Refused(s) == s.t = 0
Triple(s) == IF Refused(s) THEN <<"refused", "nosig", "extract">>
             ELSE <<IF CheckOutcome(s) THEN "check" ELSE "nocheck", IF DecVerifies(s) THEN "sig" ELSE "nosig",
                    IF Extracted(s) = Tw(s.d) THEN "extract" ELSE "noextract">>
\* what the property demands of either constructor is what the public-tweak construction gives;
\* `ascoded` is what the implemented private-tweak construction gives (finding F13)
Out == [k |-> c.k, m |-> c.m, t |-> c.t, alt |-> c.alt, d |-> c.d, ctor |-> c.ctor,
        expect |-> Triple([c EXCEPT !.ctor = "pub"]), ascoded |-> Triple(c)]
EmitCase == c.ctor = "t" \/ ~Emit \/ PrintT(ToJson(Out))

\* trace cases: [k, m, t, alt, d (0 = a scalar unrelated to t, else = t), ctor, got = <<..>>]
TraceCase(r) == [k |-> 1, m |-> 1, t |-> 1, alt |-> r.alt, d |-> IF r.dsame THEN 1 ELSE 2, ctor |-> r.ctor]
\* combined one-script locks (check_adapter_sig verify; decrypt with the supplied scalar; check_sig): accept iff both hold
TraceExpect(r) == LET s == [TraceCase(r) EXCEPT !.ctor = "pub"] IN
                  IF r.combined THEN <<IF CheckOutcome(s) /\ DecVerifies(s) THEN "accept" ELSE "reject", "", "">> ELSE Triple(s)
TraceAsCoded(r) == Triple(TraceCase(r))
TraceCheck == c.ctor # "t" \/ PrintT(ToJson([i |-> c.i, v |-> IF TraceLog[c.i].got = TraceExpect(TraceLog[c.i]) THEN "ok"
                                                             ELSE IF TraceLog[c.i].ctor = "prv" /\ TraceLog[c.i].got = TraceAsCoded(TraceLog[c.i]) THEN "F13"
                                                             ELSE "verdict"]))
=============================================================================
