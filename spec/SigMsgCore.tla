----------------------------- MODULE SigMsgCore -----------------------------
(***************************************************************************)
(* Which bytes a signature covers.  `fields` is a function from a subset  *)
(* of 1..8 (the sigfields present in the cache) to byte strings; `flag`   *)
(* is the sigflag byte: bit i-1 set = sigfield i excluded.                *)
(***************************************************************************)
EXTENDS Bytes

Covered(present, flag) == {i \in present : ~Bit(flag, i - 1)}

RECURSIVE MsgFrom(_, _, _)
MsgFrom(fields, flag, i) ==
    IF i > 8 THEN <<>>
    ELSE (IF i \in DOMAIN fields /\ ~Bit(flag, i - 1) THEN fields[i] ELSE <<>>)
         \o MsgFrom(fields, flag, i + 1)

Message(fields, flag) == MsgFrom(fields, flag, 1)

\* every bit set in flag is set in allowed
FlagPermitted(flag, allowed) == \A i \in 0..7 : Bit(flag, i) => Bit(allowed, i)

\* split a 64/65 byte signature item
SigFlag(sig) == IF Len(sig) = 65 THEN sig[65] ELSE 0
SigBody(sig) == Take(sig, 64)
=============================================================================
