"""C14 - delegation locks honour the certificate key, time window and delegability."""
import random, sys
from ..par import SafePool
from ..common import Report, REPO
from .. import scncheck
from ..ref import ed25519 as E

INV = ['AcceptIffValidChain', 'AuthIsCertified', 'TypeOK', 'CertRoundTrip']
T0 = 1_700_000_000


def _impl():
    if REPO not in sys.path:
        sys.path.insert(0, REPO)
    import tapescript.functions as F
    import tapescript.tools as T
    return F, T


def seed_of(k):
    return bytes([k]) * 32


def window(win, t):
    return {'in': (t - 100, t + 100), 'atbegin': (t, t + 100), 'beforebegin': (t + 1, t + 100), 'endm1': (t - 100, t + 1),
            'atend': (t - 100, t), 'future': (t - 100, t + 100), 'slackm1': (t - 100, t + 100)}[win]


SLACK = 60        # the default ts_threshold


def one(F, T, kind, certs, fs, sf, t=T0, seedmap=seed_of, corrupt=None, ahead=SLACK, allowed='00', flag='00', perturb=None, predef=b''):
    """`ahead` (>= SLACK): how far a "future" execution timestamp is ahead of the verifier clock."""
    wins = [c['win'] for c in certs]
    now = t - ahead if 'future' in wins else t - (SLACK - 1) if 'slackm1' in wins else t
    real = []
    for c in certs:
        b, e = window(c['win'], t)
        ct = T.make_delegate_key_cert(seedmap(c['s']), E.public_key(seedmap(c['d'])), b, e, bool(c['can']))
        real.append(ct.pack())
    if corrupt is not None:
        i, off, bit = corrupt
        bb = bytearray(real[i])
        bb[off] ^= bit
        real[i] = bytes(bb)
    old = F.time
    F.time = lambda: now
    try:
        if kind == 'single':
            lock = T.make_delegate_key_lock(E.public_key(seedmap(1)), allowed)
            wit = T.make_delegate_key_witness(seedmap(fs), real[0], dict(sf), flag)
        else:
            lock = T.make_delegate_key_chain_lock(E.public_key(seedmap(1)), allowed)
            wit = T.make_delegate_key_chain_witness(seedmap(fs), list(reversed(real)), dict(sf), flag)
        cache = {**sf, 'timestamp': t}
        if perturb:           # a sigfield changed after signing
            cache[perturb] = cache[perturb] + b'!'
        ok = F.run_auth_scripts([predef + bytes(wit.bytes), bytes(lock.bytes)], cache)
        return 'true' if ok else 'false'
    finally:
        F.time = old


def run_mc(k):
    F, T = _impl()
    if k['kind'] == 'cert':
        c = k['certs'][0]
        key, sig = bytes(range(1, 33)), bytes(200 - i for i in range(1, 65))
        cert = T.Certificate(key, c['d'], c['s'], bool(c['can']), sig)
        packed = cert.pack()
        if list(packed) != list(k['pack']):
            return 'pack-bytes-differ', packed.hex()
        u = T.Certificate.unpack(packed)
        if (u.delegate_pubkey, u.begin_ts, u.end_ts, u.can_further_delegate, u.signature) != (key, c['d'], c['s'], bool(c['can']), sig):
            return 'unpack-differs', None
        return 'packed', None
    return one(F, T, k['kind'], k['certs'], k['fs'], {'sigfield1': b'delegated', 'sigfield2': b'action'}), None


def record_random(args):
    seed, count = args
    F, T = _impl()
    out = []
    for j in range(count):
        r = random.Random(f'{seed}/{j}')
        n = r.choice([1, 1, 2, 3, 4, 6])
        kind = 'chain' if n > 1 or r.random() < 0.5 else 'single'
        honest = r.random() < 0.5
        certs = []
        for i in range(1, n + 1):
            certs.append({'d': i + 1 if honest or r.random() < 0.85 else 9, 's': i if honest or r.random() < 0.85 else 8,
                          'win': 'in' if honest and r.random() < 0.7 else r.choice(['in', 'atbegin', 'beforebegin', 'endm1', 'atend', 'future', 'slackm1']),
                          'can': True if honest and r.random() < 0.8 else r.random() < 0.7})
        fs = n + 1 if honest or r.random() < 0.8 else 9
        keys = {k: r.randbytes(32) for k in list(range(1, n + 2)) + [8, 9]}
        t = r.randrange(10 ** 6 + 200, 2 ** 31 - 200)
        sf = {f'sigfield{i}': r.randbytes(r.choice([1, 8, 40])) for i in range(1, 9) if r.random() < 0.5} or {'sigfield1': b'x'}
        corrupt = None
        model = [dict(c) for c in certs]
        if r.random() < 0.25:          # single-field corruption of one serialised certificate
            i = r.randrange(n)
            off = r.choice([r.randrange(0, 32), r.randrange(32, 36), r.randrange(36, 40), 40, r.randrange(41, 105)])
            corrupt = (i, off, 1 << r.randrange(8))
            model[i]['s'] = 8          # the certificate signature no longer verifies under the authorizing key
        # sigflags: a permitted flag with an excluded field changed keeps the verdict; a covered field changed or a
        # non-permitted flag makes the final signature invalid (modelled as a final signer 0 that is nobody's delegate)
        allowed = flag = '00'
        perturb = None
        model_fs = fs
        if r.random() < 0.45:
            bit = r.randrange(8)
            allowed = f'{(1 << bit) | (r.randrange(256) if r.random() < 0.5 else 0):02x}'
            excl, other = f'sigfield{bit + 1}', f'sigfield{(bit + 1) % 8 + 1}'
            sf.setdefault(excl, b'e')
            sf.setdefault(other, b'c')
            sub = r.random()
            outside = [i for i in range(8) if not int(allowed, 16) >> i & 1]
            if sub < 0.4:
                flag, perturb = f'{1 << bit:02x}', excl
            elif sub < 0.6:
                flag = f'{1 << bit:02x}'
            elif sub < 0.8:
                flag, perturb, model_fs = f'{1 << bit:02x}', other, 0
            elif outside:
                flag, model_fs = f'{1 << r.choice(outside):02x}', 0
        # an adversarial witness may define handle 0 before the lock does: the lock's own definition is the one that runs
        predef = b''
        if r.random() < 0.15:
            from ..gen.progs import op as _op, b1 as _b1, u16 as _u16
            body = r.choice([_op('POP0') + _op('TRUE'), _op('TRUE'), _op('POP0') + _op('POP0') + _op('TRUE')])
            predef = _op('DEF', _b1(0), _u16(len(body)), body)
        try:
            got = one(F, T, kind, certs, fs, sf, t, lambda k: keys[k], corrupt, r.choice([SLACK, SLACK, SLACK + 1, 10 ** 6]),
                      allowed, flag, perturb, predef)
        except BaseException as e:
            if isinstance(e, (KeyboardInterrupt, SystemExit)):
                raise
            got = f'raised-{type(e).__name__}'
        out.append({'kind': kind, 'certs': model, 'fs': model_fs, 'got': got})
    return out


def main(tier: str, seed: int) -> int:
    rep = Report('C14', tier, seed)
    rep.rule = ('MC (Delegation.tla: the chain lock as a state machine, one step per certificate): every chain of 1..N certificates '
                'with each certificate\'s delegate in {next key, foreign}, signer in {authorizing key, foreign}, window in {inside, t = '
                'begin, t = begin - 1, t = end - 1, t = end, inside but ahead of the pinned verifier clock by exactly the slack threshold (rejected), by one second less (accepted)}, may-delegate in {yes, no}, final '
                'signer in {last delegate, foreign}, plus the single-certificate lock; invariants AcceptIffValidChain, '
                'AuthIsCertified; CertRoundTrip on the 105-byte layout (offsets 32/36/40/41, 4-byte timestamps at 0, 1, 2^8, 2^16, 2^24 '
                'boundaries and 2^31-1). Every chain is built with the real cert / witness / lock builders under a pinned clock and '
                'run through run_auth_scripts; serialisation cases compare Certificate.pack() bytes and unpack(). traces: chains up '
                'to 6, random keys and 31-bit timestamps, single-byte corruption of a serialised certificate field, random allowed-flags bytes with permitted flags (excluded '
                'field changed: verdict kept; covered field changed: rejected) and non-permitted flags, judged by TLC '
                'running the same machine.')
    rep.assumptions = ['ideal signatures', 'a corrupted certificate is modelled as one not signed by the authorizing key']
    quick = tier == 'quick'
    scncheck.mc(rep, 'Delegation', 'mc', INV, run_mc, consts={'MaxChain': 2 if quick else 3}, workers=16)
    import multiprocessing as mp
    n = 6000 if quick else 40000
    with SafePool(14) as pool:
        cases = [c for ch in pool.map(record_random, [(seed * 61 + i, n // 28) for i in range(28)]) for c in ch]
    scncheck.judge(rep, 'Delegation', ['AcceptIffValidChain', 'TypeOK'], cases, 'random delegation chains', consts={'MaxChain': 0})
    return rep.finish()


def replay(path: str) -> int:
    import json
    obj = json.load(open(path))
    if obj.get('kind') == 'replay':
        got, d = run_mc(obj['case'])
        print(got, d, 'expected', obj['case']['expect'])
        return 0 if got == obj['case']['expect'] else 1
    return 2
