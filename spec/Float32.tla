------------------------------ MODULE Float32 ------------------------------
(***************************************************************************)
(* IEEE-754 binary32 as 4 big-endian bytes: fields, classes, the exact     *)
(* value of a finite pattern as a dyadic rational <<sign, odd significand, *)
(* exponent>>, the pattern of such a value, and the decimal text of a      *)
(* small dyadic value (the `f` literals of the assembler).  Shared by      *)
(* Codec.tla (C10) and Asm.tla (C11).                                      *)
(***************************************************************************)
EXTENDS Integers, Sequences, TLC

\* ---- binary32 -------------------------------------------------------------
\* fields of a 4-byte pattern
FSign(b) == b[1] \div 128
FExp(b)  == (b[1] % 128) * 2 + b[2] \div 128
FMant(b) == (b[2] % 128) * 65536 + b[3] * 256 + b[4]
FClass(b) == IF FExp(b) = 255 THEN (IF FMant(b) = 0 THEN "inf" ELSE "nan")
             ELSE IF FExp(b) = 0 THEN (IF FMant(b) = 0 THEN "zero" ELSE "subnormal")
             ELSE "normal"
\* exact value of a finite pattern as <<sign, odd significand m, exponent e>> with value = (-1)^s * m * 2^e
\* (zero = <<s, 0, 0>>)
RECURSIVE OddNorm(_, _)
OddNorm(m, e) == IF m % 2 = 0 THEN OddNorm(m \div 2, e + 1) ELSE <<m, e>>
FValue(b) ==
    LET s == FSign(b) IN
    CASE FClass(b) = "zero" -> <<s, 0, 0>>
      [] FClass(b) = "subnormal" -> LET n == OddNorm(FMant(b), -149) IN <<s, n[1], n[2]>>
      [] FClass(b) = "normal" -> LET n == OddNorm(8388608 + FMant(b), FExp(b) - 150) IN <<s, n[1], n[2]>>
\* re-assembly of a pattern from its fields: the encoding of the value FValue(b)
FPack(s, e, m) == <<s * 128 + e \div 2, (e % 2) * 128 + m \div 65536, (m \div 256) % 256, m % 256>>
\* the pattern of a finite value <<s, m, e>> (m odd or 0) if it is representable
FEnc(v) ==
    IF v[2] = 0 THEN FPack(v[1], 0, 0)
    ELSE LET m == v[2] e == v[3]
             \* scale the significand up to 24 bits: m * 2^k with 2^23 <= m * 2^k < 2^24
             RECURSIVE Up(_, _)
             Up(x, k) == IF x >= 8388608 THEN <<x, k>> ELSE Up(x * 2, k + 1)
             u == Up(m, 0)
             ef == e - u[2] + 150
         IN IF ef >= 1 THEN FPack(v[1], ef, u[1] - 8388608)
            ELSE \* subnormal: value = mant * 2^-149
                 LET RECURSIVE Sh(_, _)
                     Sh(x, k) == IF k = 0 THEN x ELSE Sh(x * 2, k - 1)
                 IN FPack(v[1], 0, Sh(m, e + 149))


\* decimal text of a dyadic value <<s, m, e>>, |value| < 2^31, e >= -6:  "-0.75", "3", "100.25"
\* (m odd and e < 0: the fraction m mod 2^k over 2^k is (m mod 2^k) * 5^k over 10^k, exactly k digits, last digit 5)
RECURSIVE ZeroPad(_, _)
ZeroPad(str, k) == IF Len(str) >= k THEN str ELSE ZeroPad("0" \o str, k)
FText(v) ==
    LET s == v[1] m == v[2] e == v[3] IN
    (IF s = 1 THEN "-" ELSE "") \o
    (IF e >= 0 THEN ToString(m * 2 ^ e)
     ELSE LET k == -e d == 2 ^ k IN ToString(m \div d) \o "." \o ZeroPad(ToString((m % d) * 5 ^ k), k))
=============================================================================
