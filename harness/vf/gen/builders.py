"""Runs of the library's own lock / witness builders, for step-by-step validation against TapeVM.

`make_builder_run(seed)` builds a <witness, lock> pair with the real builders of tapescript.tools (every
builder family, honest and perturbed: other key, changed sigfield, wrong time, wrong preimage, foreign
certificate, wrong script) and returns the arguments of an observed `run_auth_scripts` call.  The
bytecode that runs is the builders' actual output - variables, DEF / CALL recursion of the chain lock,
hoisted IF conditions, EVAL of committed scripts, TAPROOT, MERKLEVAL, the adapter instructions - and
every instruction of it is compared with TapeVM.Step by TapeVMTrace.tla.
"""
from __future__ import annotations
import random, sys
from ..common import REPO
from .progs import push, op, b1
from .runs import NOW

KINDS = ['single_sig', 'single_sig2', 'multisig', 'scripthash', 'graftroot_key', 'graftroot_sur', 'graftap_key', 'graftap_script',
         'taproot_key', 'taproot_script', 'nn_taproot_key', 'nn_taproot_script', 'htlc_sha', 'htlc_shake', 'htlc2_sha', 'htlc2_shake',
         'ptlc', 'ptlc_tweak', 'delegate', 'delegate_chain', 'adapter_check', 'adapter_sig', 'adapter_combined',
         'ts_after', 'ts_before', 'ts_between', 'merkle_prio', 'merkle_bal', 'amhl_hop']


class _Raw:
    """bytecode that did not come out of a builder (concatenations, corrupted proofs): no decompilation is attempted"""

    def __init__(self, b: bytes):
        self.bytes = bytes(b)


def _impl():
    if REPO not in sys.path:
        sys.path.insert(0, REPO)
    import tapescript.functions as F
    import tapescript.tools as T
    return F, T


def make_builder_run(seed: int, kind: str | None = None):
    F, T = _impl()
    r = random.Random(seed ^ 0xB11D)
    kind = kind or KINDS[seed % len(KINDS)]
    sk, sk2, sk3 = r.randbytes(32), r.randbytes(32), r.randbytes(32)
    from nacl.signing import SigningKey
    pk = lambda s: bytes(SigningKey(s).verify_key)
    sf = {f'sigfield{i}': r.randbytes(r.choice([1, 8, 40])) for i in range(1, 9) if r.random() < 0.6}
    sf.setdefault('sigfield1', b'one')
    sf.setdefault('sigfield2', b'two')
    bit = r.randrange(2)                                  # the permitted flag excludes sigfield1 or sigfield2
    allowed = r.choice(['00', f'{1 << bit:02x}', f'{(1 << bit) | 0x80:02x}'])
    flag = r.choice(['00', allowed]) if allowed != '00' else '00'
    if int(flag, 16) & 0x80:
        flag = f'{1 << bit:02x}'
    pert = r.choice(['none', 'none', 'none', 'key', 'field', 'flag'])
    signer = sk2 if pert == 'key' else sk
    if pert == 'flag':
        flag = '04'                                      # never permitted above
    t = NOW + r.choice([-5, 0, 0, 0, 30, 59, 59, 60, 61])
    cache = dict(sf)
    old_time = T.time
    T.time = lambda: NOW
    try:
        script_true = T.Script.from_src(r.choice(['true', 'push d5 push d5 equal', 'push x01 if { true } else { false }']))
        script_other = T.Script.from_src('push d1 pop0 true')
        if kind == 'single_sig':
            lock, wit = T.make_single_sig_lock(pk(sk), allowed), T.make_single_sig_witness(signer, dict(sf), flag)
        elif kind == 'single_sig2':
            lock, wit = T.make_single_sig_lock2(pk(sk), allowed), T.make_single_sig_witness2(signer, dict(sf), flag)
        elif kind == 'multisig':
            n = r.randrange(1, 4)
            m = r.randrange(1, n + 1)
            seeds = [sk, sk2, sk3][:n]
            who = r.sample(seeds, m) if pert != 'key' else [r.choice(seeds)] * m
            lock = T.make_multisig_lock([pk(s) for s in seeds], m, allowed)
            wit = _Raw(b''.join(bytes(T.make_single_sig_witness(s, dict(sf), r.choice(['00', flag])).bytes) for s in who))
        elif kind == 'scripthash':
            lock = T.make_scripthash_lock(script_true)
            wit = T.make_scripthash_witness(script_other if pert == 'key' else script_true)
        elif kind == 'graftroot_key':
            lock, wit = T.make_graftroot_lock(pk(sk), allowed), T.make_graftroot_witness_keyspend(signer, dict(sf), flag)
        elif kind == 'graftroot_sur':
            lock, wit = T.make_graftroot_lock(pk(sk), allowed), T.make_graftroot_witness_surrogate(signer, script_true)
        elif kind == 'graftap_key':
            lock, wit = T.make_graftap_lock(pk(sk), allowed), T.make_graftap_witness_keyspend(signer, dict(sf), flag)
        elif kind == 'graftap_script':
            lock, wit = T.make_graftap_lock(pk(sk), allowed), T.make_graftap_witness_scriptspend(signer, script_true)
        elif kind in ('taproot_key', 'nn_taproot_key'):
            mk = T.make_taproot_lock if kind == 'taproot_key' else T.make_nonnative_taproot_lock
            lock = mk(pk(sk), script_true, sigflags=allowed)
            wit = T.make_taproot_witness_keyspend(signer, dict(sf), script_other if pert == 'field' and r.random() < 0.5 else script_true, sigflags=flag)
        elif kind in ('taproot_script', 'nn_taproot_script'):
            mk = T.make_taproot_lock if kind == 'taproot_script' else T.make_nonnative_taproot_lock
            lock = mk(pk(sk), script_true)
            wit = T.make_taproot_witness_scriptspend(pk(signer), script_other if pert == 'field' else script_true)
        elif kind.startswith('htlc') or kind.startswith('ptlc'):
            pre = r.randbytes(r.randrange(1, 33)) or b'\x01'
            timeout = r.choice([30, 60, 61])
            path = r.choice(['claim', 'refund'])
            kw = dict(timeout=timeout, sigflags=allowed)
            if kind == 'htlc_sha':
                lock = T.make_htlc_sha256_lock(pk(sk), pk(sk2), preimage=pre, **kw)
            elif kind == 'htlc_shake':
                lock = T.make_htlc_shake256_lock(pk(sk), pk(sk2), preimage=pre, hash_size=r.choice([16, 20, 32]), **kw)
            elif kind == 'htlc2_sha':
                lock = T.make_htlc2_sha256_lock(pk(sk), pk(sk2), preimage=pre, **kw)
            elif kind == 'htlc2_shake':
                lock = T.make_htlc2_shake256_lock(pk(sk), pk(sk2), preimage=pre, hash_size=r.choice([16, 20, 32]), **kw)
            elif kind == 'ptlc':
                lock = T.make_ptlc_lock(pk(sk), pk(sk2), **kw)
            else:
                tw = F.clamp_scalar(r.randbytes(32))
                lock = T.make_ptlc_lock(pk(sk), pk(sk2), tweak_point=F.derive_point_from_scalar(tw), **kw)
            who = (sk if path == 'claim' else sk2) if pert != 'key' else sk3
            given = pre if path == 'claim' and pert != 'field' else (pre + b'x' if path == 'claim' else b'refund')
            if kind in ('htlc_sha', 'htlc_shake'):
                wit = T.make_htlc_witness(who, given, dict(sf), flag)
            elif kind in ('htlc2_sha', 'htlc2_shake'):
                wit = T.make_htlc2_witness(who, given, dict(sf), flag)
            elif path == 'refund':
                wit = T.make_ptlc_refund_witness(who, dict(sf), flag)
            elif kind == 'ptlc':
                wit = T.make_ptlc_witness(who, dict(sf), sigflags=flag)
            else:
                wit = T.make_ptlc_witness(who, dict(sf), tweak_scalar=tw, sigflags=flag)
        elif kind in ('delegate', 'delegate_chain'):
            n = 1 if kind == 'delegate' else r.randrange(1, 4)
            keys = [sk] + [r.randbytes(32) for _ in range(n)]
            certs = []
            for i in range(n):
                b, e = r.choice([(t - 100, t + 100), (t - 100, t + 100), (t - 100, t + 100), (t, t + 1), (t + 1, t + 100), (t - 100, t)])
                issuer = keys[i] if not (pert == 'key' and i == n - 1) else sk3
                certs.append(T.make_delegate_key_cert(issuer, pk(keys[i + 1]), b, e, r.random() < 0.8 or i < n - 1).pack())
            if kind == 'delegate':
                lock = T.make_delegate_key_lock(pk(sk), allowed)
                wit = T.make_delegate_key_witness(keys[1], certs[0], dict(sf), flag)
            else:
                lock = T.make_delegate_key_chain_lock(pk(sk), allowed)
                wit = T.make_delegate_key_chain_witness(keys[n], list(reversed(certs)), dict(sf), flag)
        elif kind in ('adapter_check', 'adapter_sig', 'adapter_combined'):
            traw = r.randbytes(32)
            tw = F.clamp_scalar(traw)
            Tp = F.derive_point_from_scalar(tw)
            aw = T.make_adapter_witness(signer, Tp, dict(sf), flag)
            if kind == 'adapter_check':
                lock, wit = T.make_adapter_locks_pub(pk(sk), Tp, flag if pert != 'flag' else '00')[0], aw
            elif kind == 'adapter_sig':
                sig = T.decrypt_adapter(aw, traw if pert != 'field' else r.randbytes(32))
                lock = T.make_adapter_locks_pub(pk(sk), Tp, allowed)[1]
                wit = _Raw(push(sig + (bytes.fromhex(flag) if flag != '00' else b'')))
            else:
                lock = T.make_adapter_lock_pub(pk(sk), Tp, flag if pert != 'flag' else '00')
                wit = _Raw(push(tw if pert != 'field' else F.clamp_scalar(r.randbytes(32))) + bytes(aw.bytes))
        elif kind.startswith('ts_'):
            a = t + r.choice([-1, 0, 1, -70])
            vfy = r.random() < 0.5
            if kind == 'ts_after':
                lock = T.make_timestamp_after_lock(a, vfy)
            elif kind == 'ts_before':
                lock = T.make_timestamp_before_lock(a, vfy)
            else:
                lock = T.make_timestamp_between_lock(a, a + r.choice([0, 1, 50]), vfy)
            lock = _Raw(bytes(lock.bytes) + (op('TRUE') if vfy else b''))
            wit = _Raw(b'')
        elif kind in ('merkle_prio', 'merkle_bal'):
            n = r.randrange(1, 9)
            srcs = [f'push d{i} pop0 ' + ('true' if r.random() < 0.7 else 'false') for i in range(1, n + 1)]
            mk = T.make_merklized_script_prioritized if kind == 'merkle_prio' else T.make_merklized_script_balanced
            lock, unlocks = mk(srcs)
            wit = unlocks[r.randrange(n)]
            if pert in ('key', 'field'):              # a proof with one byte changed
                wb = bytearray(bytes(wit.bytes))
                wb[r.randrange(len(wb))] ^= 1 << r.randrange(8)
                wit = _Raw(bytes(wb))
        else:                                         # amhl_hop
            n = r.randrange(2, 5)
            seeds = [r.randbytes(32) for _ in range(n)]
            res = T.setup_amhl(r.randbytes(16), [pk(s) for s in seeds], sigflags=flag if pert != 'flag' else '00')
            i = r.randrange(n)
            aw = T.make_adapter_witness(seeds[i], res[pk(seeds[i])][2], dict(sf), flag)
            if r.random() < 0.5:
                lock, wit = res[pk(seeds[i])][0], aw
            else:
                key = res['key'] if i == n - 1 and pert != 'key' else r.randbytes(32)
                sig = T.decrypt_adapter(aw, key)
                lock = res[pk(seeds[i])][1]
                wit = _Raw(push(sig + (bytes.fromhex(flag) if flag != '00' else b'')))
    finally:
        T.time = old_time
    if pert == 'field':
        k = r.choice(sorted(sf))
        cache[k] = cache[k] + b'!'
    cache['timestamp'] = t
    scripts = [bytes(wit.bytes), bytes(lock.bytes)] if bytes(wit.bytes) else [bytes(lock.bytes)]
    return dict(scripts=scripts, cache_vals=cache, auth=True, contracts={}, plugins={}, additional_flags={},
                max_items=1024, max_item_size=1024, callstack_limit=128, nsig=0, meta={'kind': kind, 'pert': pert})
