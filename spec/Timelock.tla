------------------------------ MODULE Timelock ------------------------------
(***************************************************************************)
(* Time constraints (C16).                                                 *)
(*  - the declarative windows (TimeCore.CheckTs / CheckEpoch and the three *)
(*    lock windows);                                                       *)
(*  - the operational models: the four instructions as TapeVM executes     *)
(*    them, and the three lock builders as the instruction sequences the   *)
(*    documentation gives, run on TapeVM;                                  *)
(*  - invariant: operational = declarative on an exhaustive grid of        *)
(*    (t, now, c, threshold) around every boundary x constraint encodings  *)
(*    of 1..9 bytes.                                                       *)
(* Trace mode judges cases recorded from the implementation (the real      *)
(* builders' bytes are run on TapeVM inside TLC and compared both with the *)
(* implementation's verdict and with the declarative window).              *)
(***************************************************************************)
EXTENDS TapeVM, TimeCore, Isa, Json, IOUtils

CONSTANTS Family, Emit
VARIABLE c

\* run a configuration to completion (the scripts here are straight-line)
RECURSIVE RunVM(_, _)
RunVM(v, fuel) == IF v.status # "run" \/ fuel = 0 THEN v ELSE RunVM(Step(v, NoHint), fuel - 1)

TsEntry(t) == [k |-> KTimestamp, t |-> "int", v |-> t.mag, neg |-> t.neg, items |-> <<>>]
TimeCfg(script, t, now, tsthr, ethr, auth) ==
    [BaseCfg EXCEPT !.scripts = <<script>>, !.auth = auth, !.sc = <<TsEntry(t)>>, !.now = now.mag,
                    !.flags = [k \in {FStr("ts_threshold"), FStr("epoch_threshold")} |->
                                  IF k = FStr("ts_threshold") THEN tsthr ELSE ethr]]

\* outcome of a script: "true" / "false" (top of stack), "error"
Outcome(v) == IF v.status = "raised" THEN "error"
              ELSE IF v.stack = <<>> THEN "empty"
              ELSE IF Truthy(v.stack[Len(v.stack)]) THEN "true" ELSE "false"

\* ---- documented instruction sequences of the builders -------------------------
PushInt(x) == IPush(EncS(x))
LockAfter(ts, vfy)  == PushInt(ts) \o (IF vfy THEN <<38>> ELSE <<37>>)
LockBefore(ts, vfy) == PushInt(ts) \o <<37, 46>> \o (IF vfy THEN <<32>> ELSE <<>>)
LockBetween(b, e, vfy) == LockAfter(b, TRUE) \o LockBefore(e, vfy)

\* ---- declarative windows --------------------------------------------------------
Slack(t, now, thr) == Leq(thr, Zero) \/ Less(Sub(t, now), thr)
WAfter(t, now, thr, ts)  == Leq(ts, t) /\ Slack(t, now, thr)
WBefore(t, ts)           == Less(t, ts)
WBetween(t, now, thr, b, e) == Leq(b, t) /\ Less(t, e) /\ Slack(t, now, thr)

Expect(b) == IF b THEN "true" ELSE "false"
ExpectV(b) == IF b THEN "empty" ELSE "error"       \* _VERIFY forms: nothing left / raise

\* ---- a case: [kind, t, now, thr, a (constraint / ts / begin), b (end), pad, vfy] ---
ZeroPad(m, n) == [i \in 1..(n - Len(m)) |-> 0] \o m
Declarative(k) ==
    CASE k.kind = "cts"     -> Expect(CheckTs(k.t, k.now, k.a, FromInt(k.thr)))
      [] k.kind = "ctsv"    -> ExpectV(CheckTs(k.t, k.now, k.a, FromInt(k.thr)))
      \* a negative epoch threshold is a malformed flag (documented error)
      [] k.kind = "ce"      -> IF k.thr < 0 THEN "error" ELSE Expect(CheckEpoch(k.a, k.now, FromInt(k.thr)))
      [] k.kind = "cev"     -> IF k.thr < 0 THEN "error" ELSE ExpectV(CheckEpoch(k.a, k.now, FromInt(k.thr)))
      [] k.kind = "after"   -> IF k.vfy THEN ExpectV(WAfter(k.t, k.now, FromInt(k.thr), k.a))
                               ELSE Expect(WAfter(k.t, k.now, FromInt(k.thr), k.a))
      [] k.kind = "before"  -> IF k.vfy THEN ExpectV(WBefore(k.t, k.a)) ELSE Expect(WBefore(k.t, k.a))
      [] k.kind = "between" -> IF ~WAfter(k.t, k.now, FromInt(k.thr), k.a) THEN "error"
                               ELSE IF k.vfy THEN ExpectV(WBefore(k.t, k.b)) ELSE Expect(WBefore(k.t, k.b))
Script(k) ==
    CASE k.kind = "cts"  -> IPush(ZeroPad(k.a.mag, k.pad)) \o <<37>>
      [] k.kind = "ctsv" -> IPush(ZeroPad(k.a.mag, k.pad)) \o <<38>>
      [] k.kind = "ce"   -> IPush(ZeroPad(k.a.mag, k.pad)) \o <<39>>
      [] k.kind = "cev"  -> IPush(ZeroPad(k.a.mag, k.pad)) \o <<40>>
      [] k.kind = "after"   -> LockAfter(k.a, k.vfy)
      [] k.kind = "before"  -> LockBefore(k.a, k.vfy)
      [] k.kind = "between" -> LockBetween(k.a, k.b, k.vfy)
Operational(k, script) ==
    LET thrE == IF k.kind \in {"ce", "cev"} THEN k.thr ELSE 60
        thrT == IF k.kind \in {"ce", "cev"} THEN 60 ELSE k.thr
    IN Outcome(RunVM(InitVM(TimeCfg(script, k.t, k.now, thrT, thrE, FALSE)), 20))

\* ---- the exhaustive grid -----------------------------------------------------------
Base == 1000
Thrs == {-1, 0, 1, 2, 60}
Kinds == {"cts", "ctsv", "ce", "cev", "after", "before", "between"}
IsInstr(kd) == kd \in {"cts", "ctsv", "ce", "cev"}
GridFor(kd, thr, t, now) ==
    { [kind |-> kd, t |-> FromInt(t), now |-> FromInt(now), thr |-> thr, a |-> FromInt(a), b |-> FromInt(a + w),
       pad |-> p, vfy |-> v] :
         a \in (t - 2)..(t + 2), w \in {0, 1, 3}, p \in (IF IsInstr(kd) THEN {2, 3, 9} ELSE {1}),
         v \in (IF IsInstr(kd) THEN {FALSE} ELSE {TRUE, FALSE}) }
Ts(now, thr) == { now + x : x \in {-3, -2, -1, 0, 1, 2, thr - 2, thr - 1, thr, thr + 1, thr + 2, 100} } \cap 3..3000
Grid(z) == UNION { GridFor(kd, thr, t, Base) : kd \in Kinds, thr \in Thrs, t \in UNION {Ts(Base, x) : x \in Thrs} }

TraceLog == JsonDeserialize(IOEnv.TRACE_FILE)
Init == IF Family = "trace" THEN c \in {[kind |-> "t", i |-> i] : i \in 1..Len(TraceLog)} ELSE c \in Grid(0)
Next == UNCHANGED c
Spec == Init /\ [][Next]_c

\* Known deviation F10: the before-lock is compiled as CHECK_TIMESTAMP NOT, which also
\* negates the slack clause: it accepts t >= ts whenever t is ahead of the clock by the
\* threshold or more.
F10Applies(k) == k.kind \in {"before"} /\ ~Slack(k.t, k.now, FromInt(k.thr)) /\ ~WBefore(k.t, k.a)

InvWindows == c.kind = "t" \/ F10Applies(c) \/ Operational(c, Script(c)) = Declarative(c)
InvF10Exact == (c.kind # "t" /\ F10Applies(c)) => Operational(c, Script(c)) = (IF c.vfy THEN "empty" ELSE "true")

Out == [kind |-> c.kind, t |-> c.t.mag, now |-> c.now.mag, thr |-> c.thr, a |-> c.a.mag, b |-> c.b.mag, pad |-> c.pad,
        vfy |-> c.vfy, script |-> Script(c), expect |-> Declarative(c), f10 |-> F10Applies(c)]
EmitCase == Family = "trace" \/ ~Emit \/ PrintT(ToJson(Out))

\* ---- trace cases: [kind, t, now, thr, a, b, vfy (all magnitudes as bytes), script (the
\*      real builder's bytes or the instruction probe), got (implementation outcome)] -------
TCase(r) == [kind |-> r.kind, t |-> FromU(r.t), now |-> FromU(r.now), thr |-> r.thr, a |-> FromU(r.a), b |-> FromU(r.b),
             pad |-> r.pad, vfy |-> r.vfy]
TraceVerdict(r) ==
    LET k == TCase(r)
        op == Operational(k, r.script)
    IN IF op # r.got THEN "conformance"                  \* spec VM on the real bytes vs implementation
       ELSE IF F10Applies(k) THEN "F10"
       ELSE IF op # Declarative(k) THEN "window" ELSE "ok"
TraceCheck == Family # "trace" \/ PrintT(ToJson([i |-> c.i, v |-> TraceVerdict(TraceLog[c.i])]))
=============================================================================
