"""Process pools that fail instead of hanging.

multiprocessing.Pool silently replaces a worker that died (e.g. killed by the OS under memory pressure) and
its task is lost, so Pool.map never returns.  SafePool has the same map() but is built on
concurrent.futures, which reports a dead worker (BrokenProcessPool): that becomes a MachineryError
(exit 2), never a hang and never a pass.
"""
from __future__ import annotations
import multiprocessing as mp
from concurrent.futures import ProcessPoolExecutor
from concurrent.futures.process import BrokenProcessPool
from .tlc import MachineryError


class SafePool:
    def __init__(self, procs: int):
        self.ex = ProcessPoolExecutor(max_workers=procs, mp_context=mp.get_context('fork'))

    def __enter__(self):
        return self

    def __exit__(self, *a):
        self.ex.shutdown(wait=True, cancel_futures=True)
        return False

    def map(self, fn, items, chunksize: int | None = None):
        items = list(items)
        if chunksize is None:
            chunksize = max(1, len(items) // (self.ex._max_workers * 4))
        try:
            return list(self.ex.map(fn, items, chunksize=chunksize))
        except BrokenProcessPool as e:
            raise MachineryError(f'a worker process died while running {getattr(fn, "__name__", fn)} '
                                 f'(killed by the operating system? memory pressure?): {e}') from None
