"""Run TLC / SANY on the specifications under /verif/spec and parse the results.

Everything is run in a private scratch directory under /verif/.scratch which is
removed afterwards (never /tmp).  The module files are referenced in place.
"""
from __future__ import annotations
import json, os, re, shutil, subprocess, time, uuid
from dataclasses import dataclass, field

ROOT = os.path.dirname(os.path.dirname(os.path.dirname(os.path.abspath(__file__))))
SPEC = os.path.join(ROOT, 'spec')
SCRATCH = os.path.join(ROOT, '.scratch')
JAR = '/opt/veriftools/tla/tla2tools.jar'
CM = '/opt/veriftools/tla/CommunityModules-deps.jar'


class MachineryError(Exception):
    """TLC crashed / spec did not parse / output not understood (exit 2)."""


@dataclass
class TlcResult:
    ok: bool                      # no invariant / property / postcondition violated
    generated: int = 0
    distinct: int = 0
    depth: int = 0
    violated: str | None = None   # name of violated invariant / property
    output: str = ''
    records: list = field(default_factory=list)   # parsed PrintT JSON records
    coverage: dict = field(default_factory=dict)  # action name -> (distinct, total)
    wall_s: float = 0.0
    cmd: str = ''
    errtrace: str = ''


def scratch_dir(tag: str = 'run') -> str:
    d = os.path.join(SCRATCH, f'{tag}-{os.getpid()}-{uuid.uuid4().hex[:8]}')
    os.makedirs(d, exist_ok=True)
    return d


def _java_cmd(extra_jvm=(), heap='6g'):
    return ['java', '-XX:+UseParallelGC', f'-Xmx{heap}', '-Xss512m', *extra_jvm,
            '-cp', f'{JAR}:{CM}']


_JSON_LINE = re.compile(r'^"?(\{.*\}|\[.*\])"?$')


def parse_records(out: str) -> list:
    """PrintT(ToJson(x)) prints the JSON text as a TLA+ string: a line that
    starts with a quote; inner quotes are backslash-escaped."""
    recs = []
    for line in out.splitlines():
        line = line.strip()
        if not line or line[0] not in '"{[':
            continue
        if line[0] == '"':
            if not line.endswith('"') or len(line) < 4 or line[1] not in '{[':
                continue
            try:
                s = json.loads(line)          # TLA+ string escapes == JSON escapes here
            except Exception:
                s = line[1:-1].replace('\\"', '"').replace('\\\\', '\\')
        else:
            s = line
        try:
            recs.append(json.loads(s))
        except Exception:
            continue
    return recs


def run_tlc(module: str, cfg_text: str, *, workers: int | str = 'auto',
            timeout: int = 600, simulate: str | None = None, depth: int | None = None,
            seed: int | None = None, env: dict | None = None, coverage: bool = False,
            heap: str = '6g', deadlock: bool = False, extra: list | None = None,
            dfs: bool = False, keep: bool = False, spec_dir: str = SPEC,
            want_records: bool = True) -> TlcResult:
    d = scratch_dir(module)
    try:
        cfg = os.path.join(d, module + '.cfg')
        with open(cfg, 'w') as f:
            f.write(cfg_text)
        jvm = []
        if dfs:
            jvm.append('-Dtlc2.tool.queue.IStateQueue=StateDeque')
        cmd = _java_cmd(jvm, heap) + ['tlc2.TLC', '-workers', str(workers),
                                       '-metadir', os.path.join(d, 'meta'),
                                       '-noGenerateSpecTE', '-maxSetSize', '30000000', '-config', cfg]
        if not deadlock:
            cmd.append('-deadlock')      # -deadlock DISABLES deadlock checking
        if simulate is not None:
            cmd += ['-simulate', simulate]
        if depth is not None:
            cmd += ['-depth', str(depth)]
        if seed is not None:
            cmd += ['-seed', str(seed)]
        if coverage:
            cmd += ['-coverage', '1']
        if extra:
            cmd += extra
        cmd.append(os.path.join(spec_dir, module + '.tla'))
        e = dict(os.environ)
        if env:
            e.update({k: str(v) for k, v in env.items()})
        t0 = time.time()
        try:
            p = subprocess.run(cmd, cwd=d, env=e, capture_output=True, text=True,
                               timeout=timeout)
        except subprocess.TimeoutExpired as ex:
            subprocess.run(['pkill', '-f', d], capture_output=True)
            raise MachineryError(f'TLC timeout after {timeout}s on {module}') from ex
        out = p.stdout + '\n' + p.stderr
        res = TlcResult(ok=False, output=out, wall_s=time.time() - t0,
                        cmd=' '.join(cmd))
        m = re.findall(r'(\d+) states generated, (\d+) distinct states found', out)
        if m:
            res.generated, res.distinct = int(m[-1][0]), int(m[-1][1])
        m = re.search(r'The depth of the complete state graph search is (\d+)', out)
        if m:
            res.depth = int(m.group(1))
        if want_records:
            res.records = parse_records(p.stdout)
        if coverage:
            for mm in re.finditer(r'<(\w+) line \d+, col \d+ to line \d+, col \d+ of module (\w+)>: (\d+):(\d+)', out):
                res.coverage[mm.group(1)] = (int(mm.group(3)), int(mm.group(4)))
        viol = re.search(r'Error: Invariant (\S+) is violated', out)
        if viol:
            res.violated = viol.group(1)
        elif re.search(r'Error: Action property (\S+) is violated', out):
            res.violated = re.search(r'Error: Action property (\S+) is violated', out).group(1)
        elif 'Temporal properties were violated' in out:
            res.violated = 'temporal'
        elif 'Error: The postcondition' in out or 'POSTCONDITION' in out and 'violated' in out:
            res.violated = 'postcondition'
        elif 'Error: Deadlock reached' in out:
            res.violated = 'deadlock'
        finished = ('Model checking completed. No error has been found' in out
                    or (simulate is not None and 'Error:' not in out and p.returncode == 0))
        if res.violated:
            i = out.find('Error:')
            res.errtrace = out[i:i + 20000]
            res.ok = False
        elif finished:
            res.ok = True
        else:
            i = out.find('Error:')
            k = out.find('Semantic errors')
            if k >= 0:
                i = k
            j = out.find('Error: The error occurred')
            msg = out[i:i + 1500] if i >= 0 else ''
            if j >= 0:
                msg += '\n...\n' + out[j:j + 3500]
            raise MachineryError(f'TLC failed on {module} (rc={p.returncode}):\n' + (msg or out[-4000:]))
        return res
    finally:
        if not keep:
            shutil.rmtree(d, ignore_errors=True)


def sany(module: str, spec_dir: str = SPEC) -> None:
    cmd = _java_cmd(heap='1g') + ['tla2sany.SANY', os.path.join(spec_dir, module + '.tla')]
    p = subprocess.run(cmd, cwd=spec_dir, capture_output=True, text=True, timeout=120)
    out = p.stdout + p.stderr
    if p.returncode != 0 or 'Semantic errors' in out or 'Parsing or semantic analysis failed' in out \
            or '*** Errors' in out or 'Fatal errors' in out or 'Could not parse' in out:
        raise MachineryError(f'SANY failed on {module}:\n{out[-4000:]}')


def cleanup_scratch():
    shutil.rmtree(SCRATCH, ignore_errors=True)
