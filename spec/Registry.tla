------------------------------ MODULE Registry ------------------------------
(***************************************************************************)
(* The process-global extension registries as a history machine (C19).    *)
(* State: the active plugins per scope, contracts, contract interfaces    *)
(* and aliases - as SETS: an entry is active iff it was added and not     *)
(* since removed / reset.  Run and Compile are observations: what a       *)
(* subsequent execution uses / whether a source compiles is a function of *)
(* the arguments and the current registry contents only.                  *)
(*                                                                         *)
(* MC: every reachable registry state x every call (VIEW hides the        *)
(* history so the search is bounded-exhaustive over states); each         *)
(* transition is printed with a shortest history reaching it, and the     *)
(* harness replays history + call in a fresh interpreter.                 *)
(* Trace mode: call logs recorded from the real API are checked call by   *)
(* call against the same next-state relation.                             *)
(***************************************************************************)
EXTENDS Integers, Sequences, FiniteSets, Json, IOUtils, TLC

CONSTANTS NPlug, Mode, Emit
VARIABLES plug, contr, ifaces, alias, h, tl, lastObs

Scopes == {"sx", "ct"}            \* signature_extensions, check_template
Plugins == 1..NPlug
Contracts == {1, 2, 3}            \* 1 implements CanBeInvoked; 2 implements only custom interface 1; 3 is ANOTHER object under the id of 1
SameId(c) == IF c \in {1, 3} THEN {1, 3} ELSE {c}      \* the registry is keyed by contract id: the object added last is the active one
Ifaces == {1, 2}                  \* custom interfaces that can be added / removed
Aliases == {1, 2}
Sources == {"macro_def_use", "macro_use_only", "alias1", "alias2", "plain"}

vars == <<plug, contr, ifaces, alias, h, tl, lastObs>>
Reg == [plug |-> plug, contr |-> contr, ifaces |-> ifaces, alias |-> alias]

Calls == [f : {"add_plugin", "remove_plugin"}, s : Scopes, x : Plugins]
         \cup [f : {"reset_plugins"}, s : Scopes, x : {0}]
         \cup [f : {"add_contract", "remove_contract"}, s : {""}, x : Contracts]
         \cup [f : {"add_iface", "remove_iface"}, s : {""}, x : Ifaces]
         \cup [f : {"add_alias"}, s : {"", "lower"}, x : Aliases]      \* s = "lower": the same alias written in lower case (aliases are case-insensitive)
         \cup [f : {"run", "runauth"}, s : {""}, x : {0}]
         \cup [f : {"compile", "assemble"}, s : Sources, x : {0}]

\* does contract c fulfil at least one interface in the registry r?
Fulfils(c, r) == c \in {1, 3} \/ (c = 2 /\ 1 \in r.ifaces)

\* next registry and the call's observable result
Apply(r, c) ==
    CASE c.f = "add_plugin"    -> [reg |-> [r EXCEPT !.plug[c.s] = @ \cup {c.x}], res |-> "ok"]
      [] c.f = "remove_plugin" -> [reg |-> [r EXCEPT !.plug[c.s] = @ \ {c.x}], res |-> "ok"]
      [] c.f = "reset_plugins" -> [reg |-> [r EXCEPT !.plug[c.s] = {}], res |-> "ok"]
      [] c.f = "add_contract"  -> IF Fulfils(c.x, r) THEN [reg |-> [r EXCEPT !.contr = (@ \ SameId(c.x)) \cup {c.x}], res |-> "ok"]
                                  ELSE [reg |-> r, res |-> "error"]
      [] c.f = "remove_contract" -> [reg |-> [r EXCEPT !.contr = @ \ SameId(c.x)], res |-> "ok"]
      [] c.f = "add_iface"     -> [reg |-> [r EXCEPT !.ifaces = @ \cup {c.x}], res |-> "ok"]
      [] c.f = "remove_iface"  -> [reg |-> [r EXCEPT !.ifaces = @ \ {c.x}], res |-> "ok"]
      [] c.f = "add_alias"     -> IF c.x \in r.alias THEN [reg |-> r, res |-> "error"]
                                  ELSE [reg |-> [r EXCEPT !.alias = @ \cup {c.x}], res |-> "ok"]
      \* a run uses exactly the active plugins and contracts
      [] c.f = "run"           -> [reg |-> r, res |-> "ok"]
      \* an authorization run of several scripts: every script - not only the first - sees the active
      \* plugins and contracts; its last script invokes contract 1, so it authorizes iff contract 1 is active
      [] c.f = "runauth"       -> [reg |-> r, res |-> IF r.contr \cap {1, 3} # {} THEN "true" ELSE "false"]
      \* compiling depends on the source and the aliases only: never on earlier compilations
      [] c.f \in {"compile", "assemble"} ->
            [reg |-> r, res |-> CASE c.s = "macro_use_only" -> "error"
                                  [] c.s = "alias1" -> IF 1 \in r.alias THEN "ok" ELSE "error"
                                  [] c.s = "alias2" -> IF 2 \in r.alias THEN "ok" ELSE "error"
                                  [] OTHER -> "ok"]

EmptyReg == [plug |-> [s \in Scopes |-> {}], contr |-> {}, ifaces |-> {}, alias |-> {}]

SeqOfSet(S) == LET RECURSIVE F(_) F(T) == IF T = {} THEN <<>> ELSE LET x == CHOOSE y \in T : \A z \in T : y <= z IN <<x>> \o F(T \ {x}) IN F(S)
RegJson(r) == [sx |-> SeqOfSet(r.plug["sx"]), ct |-> SeqOfSet(r.plug["ct"]), contr |-> SeqOfSet(r.contr),
               ifaces |-> SeqOfSet(r.ifaces), alias |-> SeqOfSet(r.alias)]

\* ---- model checking mode ----------------------------------------------------------
TraceLog == IF Mode = "trace" THEN JsonDeserialize(IOEnv.TRACE_FILE) ELSE <<>>

\* lastObs: the most recent observation call (run / compile / assemble).  It has no influence
\* on any result - that is the point of the property - but keeping it in the state makes TLC
\* explore, for every registry state, every observation call after every other one.
IsObs(c) == c.f \in {"run", "runauth", "compile", "assemble"}
Init == /\ plug = EmptyReg.plug /\ contr = {} /\ ifaces = {} /\ alias = {} /\ h = <<>> /\ lastObs = <<"none", "">>
        /\ tl \in (IF Mode = "trace" THEN {<<i, 1>> : i \in 1..Len(TraceLog)} ELSE {<<0, 0>>})

MCNext == \E c \in Calls :
            LET a == Apply(Reg, c) IN
            /\ plug' = a.reg.plug /\ contr' = a.reg.contr /\ ifaces' = a.reg.ifaces /\ alias' = a.reg.alias
            /\ h' = Append(h, c)
            /\ tl' = tl
            /\ lastObs' = IF IsObs(c) THEN <<c.f, c.s>> ELSE lastObs
            /\ (~Emit \/ PrintT(ToJson([hist |-> h, call |-> c, res |-> a.res, post |-> RegJson(a.reg)])))

\* ---- trace mode: [calls |-> << [f, s, x, res, post] ... >>] ---------------------------
TraceNext ==
    LET T == TraceLog[tl[1]].calls IN
    /\ tl[2] <= Len(T)
    /\ LET e == T[tl[2]]
           c == [f |-> e.f, s |-> e.s, x |-> e.x]
           a == Apply(Reg, c)
       IN IF a.res = e.res /\ RegJson(a.reg) = e.post
          THEN /\ plug' = a.reg.plug /\ contr' = a.reg.contr /\ ifaces' = a.reg.ifaces /\ alias' = a.reg.alias
               /\ tl' = <<tl[1], tl[2] + 1>> /\ h' = h /\ lastObs' = lastObs
               /\ (tl[2] < Len(T) \/ PrintT(ToJson([tid |-> tl[1], ok |-> TRUE, step |-> tl[2]])))
          ELSE /\ PrintT(ToJson([tid |-> tl[1], ok |-> FALSE, step |-> tl[2], expres |-> a.res, exppost |-> RegJson(a.reg)]))
               /\ tl' = <<tl[1], Len(T) + 1>> /\ UNCHANGED <<plug, contr, ifaces, alias, h, lastObs>>

Next == IF Mode = "trace" THEN TraceNext ELSE MCNext
Spec == Init /\ [][Next]_vars

View == <<plug, contr, ifaces, alias, tl, lastObs>>

\* ---- invariants ---------------------------------------------------------------------
TypeOK == /\ plug \in [Scopes -> SUBSET Plugins] /\ contr \subseteq Contracts
          /\ ifaces \subseteq Ifaces /\ alias \subseteq Aliases
\* the registry is exactly "added and not since removed / reset": recomputed from the history
RECURSIVE Replay(_, _)
Replay(r, cs) == IF cs = <<>> THEN r ELSE Replay(Apply(r, Head(cs)).reg, Tail(cs))
HistoryDetermines == Mode = "trace" \/ Replay(EmptyReg, h) = Reg
\* a contract is only ever active if it fulfilled an interface when added
ContractsChecked == Mode = "trace" \/ (2 \in contr => \E i \in 1..Len(h) : h[i].f = "add_contract" /\ h[i].x = 2)
=============================================================================
