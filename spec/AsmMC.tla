------------------------------- MODULE AsmMC -------------------------------
(***************************************************************************)
(* Model checking of Asm.tla over finite families of abstract programs    *)
(* (structural spellings, operand boundary values) and of byte strings    *)
(* (disassembler).  Every case is printed with its rendering and the      *)
(* bytes / listing the specification assigns, for replay through          *)
(* compile_script / decompile_script.  Family "trace" judges cases        *)
(* recorded from the implementation.                                       *)
(***************************************************************************)
EXTENDS Asm, Json, IOUtils, SequencesExt

CONSTANTS Family, Emit
VARIABLE c

\* ---- statements of the structural family ----------------------------------------
TRUEOP == NOp0(1)
DUPOP  == NOp0(29)
P5     == NPush(VD(5))
CS0    == NB1(35, 0, "x")
CMT    == NCmt
S0 == {TRUEOP, P5, CS0, CMT}
Seqs(S, n) == UNION {[1..k -> S] : k \in 0..n}
Body1 == Seqs(S0, 1)
Body2 == Seqs({TRUEOP, P5, CS0}, 2)
Blocks1(z) ==
    { NIf(b, <<>>, st) : b \in Body2, st \in {"brace", "end"} }
    \cup { NIf(b, h, st) : b \in Body1, h \in {<<TRUEOP>>, <<P5, DUPOP>>}, st \in {"brace", "end"} }
    \cup { NIfe(b, e, st) : b \in Body1, e \in Body1, st \in {"brace", "end"} }
    \cup { NTry(b, e, "brace") : b \in Body1, e \in Body1 \ {<<>>, <<CMT>>} }
    \cup { NTry(b, <<>>, "noexc") : b \in Body2 }
    \cup { NLoop(b, st) : b \in Body2, st \in {"brace", "end"} }
    \cup { NDef(h, b, st) : b \in Body1, h \in {0, 255}, st \in {"brace", "end", "dval", "xval"} }
    \cup { NBody("macro", b) : b \in Body1 \ {<<>>, <<CMT>>} }
    \cup { NBody("ct", b) : b \in Body1 \ {<<>>, <<CMT>>} }
    \cup { NMacroP(7, vs) : vs \in {<<VD(5)>>, <<VD(5), VX(<<1, 2>>)>>, <<VX(<<1>>), VX(<<2>>), VX(<<3>>)>>, <<VD(5), VD(5)>>} }
    \cup { NBody("ctx", <<P5>>), NBody("ctx", <<P5, P5, NB1(14, 2, "d")>>), NBody("ctx", <<CMT>>),
           \* executed comptime blocks that leave several items: the TOP item is the value
           NBody("ctx", <<P5, NPush(VD(6))>>), NBody("ctx", <<NPush(VX(<<10>>)), NPush(VX(<<11>>)), NPush(VX(<<12, 13>>))>>),
           NBody("ctx", <<P5, DUPOP, NPush(VD(1)), NB1(14, 2, "d")>>) }
    \cup { NVset(<<107>>, 2), NVvals(<<107, 50>>, <<VD(5), VX(<<1, 2>>)>>), NVar("vload", <<107>>),
           NVar("vsize", <<107>>),
           \* names keep their letter case in all three forms
           NVset(<<75, 107>>, 1), NVar("vload", <<75, 107>>), NVar("vsize", <<75, 107>>), NVar("vsize", <<109, 76>>) }
\* depth 2: a block whose body contains a depth-1 block
Inner(z) == { NIf(<<TRUEOP>>, <<>>, st) : st \in {"brace", "end"} }
            \cup { NIfe(<<TRUEOP>>, <<P5>>, st) : st \in {"brace", "end"} }
            \cup { NTry(<<TRUEOP>>, <<P5>>, "brace"), NLoop(<<TRUEOP>>, "end"), NLoop(<<TRUEOP>>, "brace") }
Blocks2(z) ==
    { NIf(<<i>> \o t, <<>>, st) : i \in Inner(0), t \in {<<>>, <<P5>>}, st \in {"brace", "end"} }
    \* (an END_-style IF..ELSE whose then-body ends in a brace-style IF without ELSE is the dangling-else
    \*  ambiguity of the surface grammar, not a spelling of this program: excluded)
    \cup { x \in { NIfe(<<i>>, <<j>> \o t, st) : i \in Inner(0), j \in Inner(0), t \in {<<>>, <<P5>>}, st \in {"brace", "end"} } :
                ~(x.st = "end" /\ x.b[1].n = "if" /\ x.b[1].st = "brace") }
    \cup { NTry(<<i>> \o t, <<j>>, "brace") : i \in Inner(0), j \in Inner(0), t \in {<<>>, <<P5>>} }
    \cup { NLoop(<<i>> \o t, st) : i \in Inner(0), t \in {<<>>, <<P5>>}, st \in {"brace", "end"} }
    \cup { NDef(1, <<i>> \o t, st) : i \in Inner(0), t \in {<<>>, <<P5>>}, st \in {"brace", "end"} }
StructProgs(z) == { <<b>> \o t : b \in Blocks1(0) \cup Blocks2(0), t \in {<<>>, <<P5>>, <<TRUEOP, P5>>} }
                  \cup { <<a, IF b.n = "macro" THEN [b EXCEPT !.a = 1] ELSE b>> \o t : a \in Blocks1(0), b \in Blocks1(0), t \in {<<>>, <<P5>>} }

\* ---- operand boundary values per operand kind ---------------------------------------
Rep(n, x) == [i \in 1..n |-> x]
\* 0.5, -0.75, 1.5, 3, -2, 100.25, 0, -0, 16777216, -0.015625
FVals == {<<63, 0, 0, 0>>, <<191, 64, 0, 0>>, <<63, 192, 0, 0>>, <<64, 64, 0, 0>>, <<192, 0, 0, 0>>, <<66, 200, 128, 0>>,
          <<0, 0, 0, 0>>, <<128, 0, 0, 0>>, <<75, 128, 0, 0>>, <<188, 128, 0, 0>>}
OperandProgs(z) ==
    { <<NPush(VD(i))>> : i \in {0, 1, -1, 127, 128, -128, -129, 255, 256, 32767, 32768, -32768, -32769, 65535, 65536, 8388607, -8388608} }
    \cup { <<NPush(VX(Rep(n, 171)))>> : n \in {0, 1, 2, 255, 256, 257} }
    \cup { <<NPush(VS(Rep(n, 97)))>> : n \in {1, 2, 255, 256} }
    \cup { <<NPush(VS(<<104, 105, 32, 121, 111>>))>> }
    \cup { <<NB1(op, b, st)>> : op \in {2, 7, 14, 28, 42, 54, 35, 72, 91, 5, 89, 200, 255, 92}, b \in {0, 1, 127, 128, 255}, st \in {"d", "x"} }
    \cup { <<NBn("b2", 52, <<i, j>>)>> : i \in {0, 1, 255}, j \in {0, 2, 255} }
    \cup { <<NBn("b3", op, <<f, m, n>>)>> : op \in {70, 71}, f \in {0, 255}, m \in {0, 3, 255}, n \in {0, 5, 255} }
    \cup { <<NBn("f4", op, b)>> : op \in {23, 25}, b \in {<<0, 0, 0, 0>>, <<63, 192, 0, 0>>, <<255, 255, 255, 255>>} }
    \* f literals: divisors (integral values only: the operand parser accepts no fraction) and pushed values
    \cup { <<NF4(op, b)>> : op \in {23, 25}, b \in {<<64, 0, 0, 0>>, <<192, 0, 0, 0>>, <<64, 64, 0, 0>>, <<192, 224, 0, 0>>,
                                                       <<75, 128, 0, 0>>, <<203, 128, 0, 0>>, <<0, 0, 0, 0>>, <<128, 0, 0, 0>>} }
    \cup { <<NPush(VF(b))>> : b \in FVals }
    \cup { <<NS1(op, VF(<<63, 192, 0, 0>>))>> : op \in {10, 17, 49} }
    \cup { <<NMacroP(3, <<VF(<<191, 64, 0, 0>>), VD(5)>>)>>, <<NVvals(<<107>>, <<VF(<<63, 0, 0, 0>>), VX(<<1>>)>>)>> }
    \cup { <<NBn("h32", 60, Rep(32, x))>> : x \in {0, 171, 255} }
    \* fixed-width operands of the wrong width are unencodable (alone and followed by instructions that would be swallowed)
    \cup { <<NBn("h32", 60, Rep(n, 171))>> \o t : n \in {0, 1, 31, 33}, t \in {<<>>, <<TRUEOP, TRUEOP>>} }
    \cup { <<NBn("f4", op, Rep(n, 64))>> \o t : op \in {23, 25}, n \in {0, 3, 5}, t \in {<<>>, <<TRUEOP>>} }
    \cup { <<NS1(op, v)>> : op \in {10, 11, 17, 19, 49, 50, 64}, v \in {VD(0), VD(5), VD(-1), VD(128), VD(-129), VD(70000), VX(<<>>), VX(<<0, 5>>), VX(Rep(255, 1)), VS(<<107>>)} }
    \cup { <<NWc(k, n)>> : k \in {VX(<<>>), VX(<<107>>), VX(Rep(255, 2)), VS(<<107, 49>>)}, n \in {0, 1, 255} }
    \cup { <<NP("p1", Rep(n, 7), st)>> : n \in {0, 1, 2, 255}, st \in {"sz"} }
    \cup { <<NP("p1", Rep(n, 7), "nosz"), TRUEOP>> : n \in {1, 2, 255} }
    \* the one-symbol form followed by an instruction whose alias starts with a value-prefix letter (s, d, x, f)
    \cup { <<NP(k, <<1, 2>>, "nosz"), NOp0(op)>> : k \in {"p1", "p2"}, op \in {0, 8, 30, 29, 63} }
    \cup { <<NP("p2", Rep(n, 7), "sz")>> : n \in {0, 1, 255, 256, 300} }
    \cup { <<NDef(h, <<TRUEOP>>, st)>> : h \in {0, 1, 127, 128, 255}, st \in {"brace", "dval", "xval"} }
    \cup { <<NVset(<<107>>, n)>> : n \in {0, 1, 255} }

\* ---- an unassigned opcode in every syntactic context (C20: NOPn / the fork's name and aliases compile alike) ------
NopNodes(z) == { NB1(cd, n, st) : cd \in {92, 200, 255}, n \in {0, 3}, st \in {"d", "x"} }
NopCtxProgs(z) ==
    UNION { { <<pre, x>>, <<pre, x, TRUEOP>> } : x \in NopNodes(0),
            pre \in { NP("p1", <<7, 7>>, "nosz"), NP("p2", <<7, 7>>, "nosz"), NP("p1", <<7>>, "sz"), P5, NPush(VX(<<1, 2>>)), TRUEOP, CS0,
                      NS1(10, VX(<<107>>)), NS1(17, VD(5)), NWc(VX(<<107>>), 1), NVar("vload", <<107>>), NVset(<<107>>, 1),
                      NBn("b2", 52, <<0, 1>>), NBn("b3", 70, <<0, 1, 1>>), NF4(23, <<64, 0, 0, 0>>), NBn("h32", 60, Rep(32, 9)) } }
    \cup UNION { { <<NIf(<<x>>, <<>>, "brace")>>, <<NIf(<<x>>, <<>>, "end")>>, <<NIf(<<TRUEOP>>, <<P5, x>>, "brace")>>,
                   <<NIfe(<<x>>, <<x>>, "brace")>>, <<NIfe(<<TRUEOP>>, <<x>>, "end")>>, <<NTry(<<x>>, <<x, TRUEOP>>, "brace")>>,
                   <<NTry(<<x>>, <<>>, "noexc")>>, <<NLoop(<<x>>, "brace")>>, <<NLoop(<<x, TRUEOP>>, "end")>>,
                   <<NDef(1, <<x>>, "brace")>>, <<NDef(1, <<x>>, "end")>>, <<NDef(1, <<x>>, "dval")>>,
                   <<NBody("macro", <<x>>)>>, <<NBody("ct", <<x>>)>>, <<NBody("ct", <<P5, x>>)>> } : x \in NopNodes(0) }

\* ---- byte strings for the disassembler ------------------------------------------------
\* one representative per decoder class for the longer strings
ClassReps == {0, 1, 2, 3, 4, 9, 10, 17, 23, 41, 42, 43, 44, 52, 60, 61, 69, 70, 92, 255} \cup {127, 128}
Strings(z) ==
    CASE Family = "disasm2" -> UNION {[1..k -> Byte] : k \in 0..2}
      [] Family = "disasm3" -> [1..3 -> ClassReps]
      [] Family = "disasm4" -> { <<a, b, x, d>> : a \in {3, 4, 9, 10, 17, 41, 43, 44, 61, 69}, b \in {0, 1, 2, 127, 128, 255}, x \in {0, 1, 2, 255}, d \in {0, 1, 43, 255} }
                               \cup { <<a, 0, 2, 43, 0>> \o t : a \in {43, 69}, t \in {<<>>, <<0>>, <<0, 0>>, <<0, 1, 1>>} }
                               \cup { <<4, 128, 1>>, <<4, 255, 253>>, <<4, 255, 255>> }
                               \cup { <<a>> \o U16B(Len(x)) \o x \o U16B(Len(y)) \o y \o t :
                                        a \in {44, 61}, x \in {<<>>, <<1>>, <<43, 0, 0>>, <<44, 0, 0, 0, 0>>}, y \in {<<>>, <<1>>, <<44, 0, 1, 1, 0, 0>>}, t \in {<<>>, <<1>>} }
                               \cup { <<41, h>> \o U16B(Len(x)) \o x : h \in {0, 255}, x \in {<<>>, <<1>>, <<44, 0, 0, 0, 0>>, <<61, 0, 1, 1, 0, 0>>} }

TraceLog == JsonDeserialize(IOEnv.TRACE_FILE)

Cases(z) ==
    CASE Family = "struct"   -> { [k |-> "asm", p |-> p] : p \in StructProgs(0) }
      [] Family = "operands" -> { [k |-> "asm", p |-> p] : p \in OperandProgs(0) }
      [] Family = "nopctx"   -> { [k |-> "asm", p |-> p] : p \in NopCtxProgs(0) }
      [] Family \in {"disasm2", "disasm3", "disasm4"} -> { [k |-> "dis", b |-> b] : b \in Strings(0) }
      \* every byte string of length 3, one case per two-byte prefix (C12's quantifier, literally)
      [] Family = "disasm3x" -> { [k |-> "dis3", a |-> a, b |-> b] : a \in Byte, b \in Byte }
      [] Family = "trace"    -> { [k |-> "t", i |-> i] : i \in 1..Len(TraceLog) }

Init == c \in Cases(0)
Next == UNCHANGED c
Spec == Init /\ [][Next]_c

\* ---- invariants -------------------------------------------------------------------------
\* C11/C12: what the assembler emits decodes again, instruction for instruction, and the
\* canonical program obtained by disassembly re-assembles to the same bytes
RoundTrip(code) == Decodes(code) /\ EncSeq(Canon(code)) = code
\* the assembler and the VM's operand reader agree on instruction lengths: every top-level
\* node of the program ends on an instruction boundary of the assembled code
RECURSIVE Ends(_, _)
Ends(ns, off) == IF ns = <<>> THEN {} ELSE LET e == off + Len(Enc(Head(ns))) IN {e} \cup Ends(Tail(ns), e)
VMAgrees(p) == Ends(p, 0) \subseteq (Boundaries(EncSeq(p)) \cup {Len(EncSeq(p))})
\* PUSH selects the smallest push instruction that fits
PushMinimal(p) == \A i \in 1..Len(p) : p[i].n = "push" /\ Encodable(p[i]) =>
                      LET n == Len(ValBytes(p[i].v)) e == Enc(p[i]) IN
                      e[1] = (IF n = 1 THEN 2 ELSE IF n < 256 THEN 3 ELSE 4)
\* the disassembler makes progress: the decoded length of every instruction is at least 1 and
\* never runs past the end (InstrLen = -1 means truncated: an error, never a step backwards)
RECURSIVE Progress(_, _)
Progress(code, pc) == pc >= Len(code) \/ LET k == InstrLen(code, pc) IN
                          k = -1 \/ (k >= 1 /\ pc + k <= Len(code) /\ Progress(code, pc + k))
InvAsm == c.k # "asm" \/ ~EncodableSeq(c.p)
          \/ (RoundTrip(EncSeq(c.p)) /\ VMAgrees(c.p) /\ PushMinimal(c.p))
InvDisOf(b) == Progress(b, 0) /\ (Decodes(b) => EncSeq(Canon(b)) = b)
InvDis == (c.k # "dis" \/ InvDisOf(c.b)) /\ (c.k # "dis3" \/ \A x \in Byte : InvDisOf(<<c.a, c.b, x>>))

Out == CASE c.k = "asm" -> [k |-> "asm", toks |-> ToksSeq(c.p), ok |-> EncodableSeq(c.p),
                            bytes |-> IF EncodableSeq(c.p) THEN EncSeq(c.p) ELSE <<>>,
                            listing |-> IF EncodableSeq(c.p) THEN Listing(EncSeq(c.p)) ELSE <<>>]
         [] c.k = "dis" -> [k |-> "dis", b |-> c.b, ok |-> Decodes(c.b), listing |-> IF Decodes(c.b) THEN Listing(c.b) ELSE <<>>]
         \* oks[x + 1] = 1 iff <<a, b, x>> decodes (the listings of these strings are covered by the class families)
         [] c.k = "dis3" -> [k |-> "dis3", a |-> c.a, b |-> c.b, oks |-> [x \in 1..256 |-> IF Decodes(<<c.a, c.b, x - 1>>) THEN 1 ELSE 0]]
EmitCase == c.k = "t" \/ ~Emit \/ PrintT(ToJson(Out))

\* ---- trace cases --------------------------------------------------------------------------
\*  [k |-> "asm", p (abstract program as JSON), got (bytes the compiler produced), accepted]
\*  [k |-> "dis", b (bytes), ok (decompiled without error), relisted (compile(decompile(b)))]
RECURSIVE NodeOf(_), NodesOf(_)
ValOf(v) == [k |-> v.k, i |-> v.i, b |-> v.b]
NodesOf(xs) == [i \in 1..Len(xs) |-> NodeOf(xs[i])]
NodeOf(x) == Mk(x.n, x.a, x.y, ValOf(x.v), [i \in 1..Len(x.vs) |-> ValOf(x.vs[i])], NodesOf(x.b), NodesOf(x.c), x.st)
TraceVerdict(t) ==
    IF t.k = "asm"
    THEN LET p == NodesOf(t.p) IN
         IF ~EncodableSeq(p) THEN (IF t.accepted THEN "accepted-unencodable" ELSE "ok")
         ELSE IF ~t.accepted THEN "ok"                       \* the property speaks about accepted sources
         ELSE IF t.got = EncSeq(p) THEN "ok" ELSE "bytes"
    ELSE IF t.ok # Decodes(t.b) THEN "decodes"
         ELSE IF t.ok /\ t.relisted # t.b THEN "roundtrip" ELSE "ok"
TraceCheck == c.k # "t" \/ PrintT(ToJson([i |-> c.i, v |-> TraceVerdict(TraceLog[c.i])]))
=============================================================================
