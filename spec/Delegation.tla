----------------------------- MODULE Delegation -----------------------------
(***************************************************************************)
(* Delegation locks (C14).  The chain lock is a state machine that follows *)
(* the recursion of `def 0` in make_delegate_key_chain_lock: one step per  *)
(* certificate (pop the authorizing key, split the certificate, check the  *)
(* time window, check the certificate signature under the authorizing key, *)
(* then either recurse with the delegate key or check the final signature).*)
(* Certificates: [d delegate, s signer, win, can]; root key = 1.           *)
(* win (relative to the execution timestamp t):                            *)
(*   "in" begin < t < end - 1   "atbegin" t = begin   "beforebegin" t = begin - 1 *)
(*   "endm1" t = end - 1        "atend" t = end       "future" inside the  *)
(*   window but ahead of the verifier clock by the slack threshold or more *)
(*   (the enumerated case: by exactly the threshold)  "slackm1" inside the *)
(*   window and ahead of the clock by one second less than the threshold   *)
(***************************************************************************)
EXTENDS Integers, Sequences, FiniteSets, Json, IOUtils, TLC

CONSTANTS Family, Emit, MaxChain
VARIABLES sc, auth, idx, status

vars == <<sc, auth, idx, status>>
RootKey == 1
Wins == {"in", "atbegin", "beforebegin", "endm1", "atend", "future", "slackm1"}
WinOK(w) == w \in {"in", "atbegin", "endm1", "slackm1"}

\* honest key of position i in a chain: 1 = root, i + 1 = i-th delegate; 8 / 9 = foreign keys
Certs(i) == [d : {i + 1, 9}, s : {i, 8}, win : Wins, can : BOOLEAN]
RECURSIVE Chains(_, _)
Chains(i, n) == IF i > n THEN {<<>>} ELSE {<<cc>> \o rest : cc \in Certs(i), rest \in Chains(i + 1, n)}
Bounds == {0, 1, 255, 256, 65535, 65536, 16777215, 16777216, 2147483647}
TraceLog == IF Family = "trace" THEN JsonDeserialize(IOEnv.TRACE_FILE) ELSE <<>>
Scenarios(z) ==
    IF Family = "trace" THEN { [kind |-> TraceLog[i].kind, certs |-> TraceLog[i].certs, fs |-> TraceLog[i].fs, tid |-> i, want |-> Len(TraceLog[i].certs)] : i \in 1..Len(TraceLog) }
    \* (the certificates of a chain are chosen one at a time by the action PickCert - status "setup", target length in
    \*  `want` - so that their enumeration is part of the parallel search, not of the sequential initial-state computation)
    ELSE UNION { { [kind |-> "chain", certs |-> <<>>, fs |-> f, tid |-> 0, want |-> n] : f \in {n + 1, 9} } : n \in 1..MaxChain }
         \cup { [kind |-> "single", certs |-> <<>>, fs |-> f, tid |-> 0, want |-> 1] : f \in {2, 9} }
         \* serialisation cases: begin = certs[1].d, end = certs[1].s, may-delegate = certs[1].can (fields reused)
         \cup { [kind |-> "cert", certs |-> <<[d |-> b, s |-> e, win |-> "in", can |-> cn]>>, fs |-> 0, tid |-> 0, want |-> 1] :
                   b \in Bounds, e \in {0, 2147483647, 70000}, cn \in BOOLEAN }

Init == sc \in Scenarios(0) /\ auth = RootKey /\ idx = 1
        /\ status = (IF sc.kind = "cert" THEN "cert" ELSE IF Len(sc.certs) < sc.want THEN "setup" ELSE "run")
PickCert == /\ status = "setup"
            /\ \E cc \in Certs(Len(sc.certs) + 1) : sc' = [sc EXCEPT !.certs = Append(@, cc)]
            /\ status' = (IF Len(sc.certs) + 1 = sc.want THEN "run" ELSE "setup")
            /\ UNCHANGED <<auth, idx>>

\* one certificate
StepCert ==
    /\ status = "run" /\ idx <= Len(sc.certs)
    /\ LET ct == sc.certs[idx] more == idx < Len(sc.certs) IN
       IF ~WinOK(ct.win) THEN status' = "error" /\ UNCHANGED <<sc, auth, idx>>                 \* a window check raised
       ELSE IF ct.s # auth THEN status' = "error" /\ UNCHANGED <<sc, auth, idx>>               \* certificate not signed by the authorizing key
       ELSE IF sc.kind = "chain" /\ ct.can /\ more
            THEN auth' = ct.d /\ idx' = idx + 1 /\ UNCHANGED <<sc, status>>                    \* recurse: the delegate authorizes the next certificate
       ELSE IF more THEN status' = "error" /\ UNCHANGED <<sc, auth, idx>>                      \* may not delegate further: the next certificate is taken as a signature
       ELSE status' = (IF sc.fs = ct.d THEN "true" ELSE "false") /\ UNCHANGED <<sc, auth, idx>>   \* final signature under the delegate key
Next == PickCert \/ StepCert
Spec == Init /\ [][Next]_vars

\* ---- the declarative statement ---------------------------------------------------------------------------------
ValidChain(s) == LET n == Len(s.certs) IN
    /\ \A i \in 1..n : /\ s.certs[i].s = (IF i = 1 THEN RootKey ELSE s.certs[i - 1].d)
                       /\ WinOK(s.certs[i].win)
                       /\ (i < n => s.certs[i].can)
    /\ s.fs = s.certs[n].d
Done == status \notin {"run", "setup"}
AcceptIffValidChain == Done /\ sc.kind # "cert" => ((status = "true") <=> ValidChain(sc))
\* every certificate is signed by the key authorized so far; the authorizing key only ever moves to a certified delegate
AuthIsCertified == idx > 1 => auth = sc.certs[idx - 1].d /\ sc.certs[idx - 1].can
TypeOK == status \in {"setup", "run", "true", "false", "error", "cert"} /\ (status = "setup" \/ idx \in 1..Len(sc.certs))

\* ---- certificate serialisation (105 bytes: key 32, begin 4, end 4, can 1, signature 64) --------------------------------
U32(n) == <<n \div 16777216, (n \div 65536) % 256, (n \div 256) % 256, n % 256>>
FromU32(b) == ((b[1] * 256 + b[2]) * 256 + b[3]) * 256 + b[4]
PackCert(k, b, e, can, sig) == k \o U32(b) \o U32(e) \o <<IF can THEN 255 ELSE 0>> \o sig
UnpackCert(x) == [k |-> SubSeq(x, 1, 32), b |-> FromU32(SubSeq(x, 33, 36)), e |-> FromU32(SubSeq(x, 37, 40)), can |-> x[41] = 255,
                  sig |-> SubSeq(x, 42, 105)]
CertRoundTrip == \A b \in Bounds, e \in {0, 2147483647, 70000}, cn \in BOOLEAN :
                    LET k == [i \in 1..32 |-> i] sg == [i \in 1..64 |-> 200 - i]
                        u == UnpackCert(PackCert(k, b, e, cn, sg))
                    IN Len(PackCert(k, b, e, cn, sg)) = 105 /\ u.k = k /\ u.b = b /\ u.e = e /\ u.can = cn /\ u.sig = sg

KeyBytes == [i \in 1..32 |-> i]
SigBytes == [i \in 1..64 |-> 200 - i]
Out == [kind |-> sc.kind, certs |-> sc.certs, fs |-> sc.fs,
        pack |-> IF sc.kind = "cert" THEN PackCert(KeyBytes, sc.certs[1].d, sc.certs[1].s, sc.certs[1].can, SigBytes) ELSE <<>>,
        expect |-> IF sc.kind = "cert" THEN "packed" ELSE IF status = "true" THEN "true" ELSE "false"]
EmitCase == Family = "trace" \/ ~Done \/ ~Emit \/ PrintT(ToJson(Out))
TraceCheck == Family # "trace" \/ ~Done \/
              PrintT(ToJson([i |-> sc.tid, v |-> IF TraceLog[sc.tid].got = (IF status = "true" THEN "true" ELSE "false") THEN "ok" ELSE "verdict"]))
=============================================================================
