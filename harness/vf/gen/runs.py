"""Random run configurations (cache, limits, flags, plugins, contracts) + programs."""
from __future__ import annotations
import random
from .progs import Gen, InvokeContract
from ..ref import ed25519 as E

NOW = 1_700_000_000


def make_sc(r: random.Random) -> dict:
    sc = {}
    for i in range(1, 9):
        if r.random() < 0.4:
            sc[f'sigfield{i}'] = r.randbytes(r.choice([0, 1, 3, 8, 32]))
    c = r.random()
    if c < 0.6:
        sc['timestamp'] = NOW + r.choice([-100000, -60, -1, 0, 1, 59, 60, 61, 100000])
    elif c < 0.7:
        sc['timestamp'] = r.choice([b'bytes', 'str', 1.5])
    if r.random() < 0.3:
        sc[r.choice(['note', 'memo', 'sigfield9'])] = r.choice([b'\x01\x02', 'text', 7, -300, 2 ** 70, 1.5, None, True])
    return sc


def make_bc0(r: random.Random) -> dict:
    bc = {}
    if r.random() < 0.3:
        for _ in range(r.randrange(1, 3)):
            k = r.choice([b'a', b'k', b'P', b'sigfield1', b'timestamp', b'E'])
            bc[k] = [r.randbytes(r.randrange(0, 4)) for _ in range(r.randrange(0, 3))] if r.random() < 0.8 \
                else r.randbytes(3)
    return bc


def make_limits(r: random.Random):
    c = r.random()
    if c < 0.6:
        return 1024, 1024, 128
    if c < 0.8:
        return r.choice([1, 2, 3, 5, 8, 16]), r.choice([1, 4, 32, 33, 64, 65, 300]), r.choice([1, 2, 3, 5])
    return r.randrange(1, 40), r.randrange(1, 400), r.randrange(1, 12)


def make_flags(r: random.Random) -> dict:
    fl = {}
    if r.random() < 0.4:
        for _ in range(r.randrange(1, 4)):
            k = r.choice([0, 1, 2, 3, 4, 5, 6, 7, 8, 9, 10, 'ts_threshold', 'epoch_threshold', 'eval_return',
                          'disallow_OP_EVAL'])
            if k == 'ts_threshold':
                fl[k] = r.choice([0, -1, 1, 60, 120])
            elif k == 'epoch_threshold':
                fl[k] = r.choice([0, 1, 60, 120])
            elif k == 'disallow_OP_EVAL':
                if r.random() < 0.3:
                    fl[k] = True
            else:
                fl[k] = r.choice([True, False])
    return fl


class SigExt:
    """counting signature-extension plugin"""
    def __init__(self):
        self.n = 0

    def __call__(self, tape, stack, cache):
        self.n += 1


def make_run(seed: int, max_depth: int = 4, auth_ratio: float = 0.3, n_hi: int = 8):
    r = random.Random(seed)
    seeds = [bytes([i + 1]) * 32 for i in range(3)] + [r.randbytes(32)]
    sc = make_sc(r)
    bc0 = make_bc0(r)
    mi, ms, cl = make_limits(r)
    contracts = {b'c1': InvokeContract(b'c1')}
    if r.random() < 0.3:
        contracts[b'c2' * 16] = InvokeContract(b'c2')
    nsig = r.choice([0, 0, 1, 2])
    plugins = {'signature_extensions': [SigExt() for _ in range(nsig)]} if nsig else {}
    g = Gen(r, {'timestamp': NOW, **sc}, seeds, max_depth=max_depth, contracts=contracts)
    auth = r.random() < auth_ratio
    if auth:
        scripts = [g.program(0, max(2, n_hi // 2)) for _ in range(r.choice([1, 2, 2, 3, 4]))]
        flags = {}
    else:
        scripts = [g.program(1, n_hi)]
        flags = make_flags(r)
    return dict(scripts=scripts, cache_vals={**sc, **bc0}, auth=auth, contracts=contracts, plugins=plugins,
                additional_flags=flags, max_items=mi, max_item_size=ms, callstack_limit=cl, nsig=nsig)
