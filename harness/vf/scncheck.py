"""Scenario-style specifications (lock / protocol families, pure functions).

Convention of such a TLA+ module: CONSTANTS Family, Emit; VARIABLE c; Init chooses a case of the
family (or, for Family = "trace", the index of a case recorded from the implementation in
TRACE_FILE); INVARIANTs state the laws on the specification; `EmitCase` prints every case as JSON
with the outcome the specification assigns (field `expect`); `TraceCheck` prints [i, v] for every
recorded case (v = "ok" or the name of the disagreement).

  mc()     TLC explores the family exhaustively; every printed case is concretised and run through
           the real code by `run_fn(case) -> (outcome, detail)`; outcome must equal case['expect'].
  judge()  cases recorded from the real code (beyond the enumerated family) are judged by TLC.
"""
from __future__ import annotations
import json, multiprocessing as mp, os, shutil
from .par import SafePool
from concurrent.futures import ThreadPoolExecutor
from . import tlc
from .common import Report

NPROC = 14
_run_fn = None


def cfg(family: str, invariants: list, consts: dict | None = None, emit: bool = True) -> str:
    extra = ''.join(f'  {k} = {v}\n' for k, v in (consts or {}).items())
    return ('SPECIFICATION Spec\nCONSTANTS\n' + f'  Family = "{family}"\n  Emit = {"TRUE" if emit else "FALSE"}\n' + extra
            + ''.join(f'INVARIANT {i}\n' for i in invariants) + 'CHECK_DEADLOCK FALSE\n')


def raised_in_repo(e: BaseException) -> bool:
    """was the exception raised by the implementation (innermost frame inside the repository)?"""
    import traceback
    from .common import REPO
    tb = traceback.extract_tb(e.__traceback__)
    return bool(tb) and os.path.abspath(tb[-1].filename).startswith(os.path.abspath(REPO) + os.sep)


def _chunk(args):
    fn, recs = args
    out = []
    for r in recs:
        try:
            out.append(fn(r))
        except BaseException as e:
            if isinstance(e, (KeyboardInterrupt, SystemExit)):
                raise
            if raised_in_repo(e):
                # the implementation (a builder, an instruction) raised where the scenario expects an outcome:
                # that is an outcome to be judged, not a failure of the machinery
                out.append((f'raised-{type(e).__name__}', str(e)[:200]))
            else:
                out.append(('harness-error', f'{type(e).__name__}: {e}'))
    return out


def parallel(fn, items: list, procs: int = NPROC) -> list:
    if len(items) < 64:
        return _chunk((fn, items))
    n = procs * 4
    chunks = [items[i::n] for i in range(n)]
    with SafePool(procs) as pool:
        outs = pool.map(_chunk, [(fn, c) for c in chunks])
    res = [None] * len(items)
    for ci, out in enumerate(outs):
        for j, v in enumerate(out):
            res[ci + j * n] = v
    return res


def mc(rep: Report, module: str, family: str, invariants: list, run_fn, *, consts=None, workers=8, timeout=3000,
       known=None, heap='8g', sample_key=None, env=None):
    """known(case, got) -> finding name or None"""
    res = tlc.run_tlc(module, cfg(family, invariants + ['EmitCase'], consts), workers=workers, timeout=timeout, heap=heap, env=env)
    rep.add_tlc(res, f'mc:{module}/{family}')
    if res.violated:
        rep.violation(f'TLC: {res.violated} violated in {module} family {family} (specification level)',
                      {'kind': 'mc', 'module': module, 'family': family, 'trace': res.errtrace[:4000]})
        return res
    recs = [r for r in res.records if isinstance(r, dict) and 'expect' in r]
    outs = parallel(run_fn, recs)
    bad = 0
    for r, (got, detail) in zip(recs, outs):
        rep.case(json.dumps({k: v for k, v in r.items() if k != 'expect'}, sort_keys=True))
        if got == 'harness-error':
            raise tlc.MachineryError(f'{module}/{family}: harness could not run case {json.dumps(r)[:300]}: {detail}')
        if got == r['expect']:
            rep.traces += 1
            continue
        name = known(r, got) if known else None
        if name:
            rep.known_finding(name, f'{module}/{family}: {json.dumps(r)[:200]} -> {got}')
            continue
        bad += 1
        rep.violation(f"{module}/{family}: case {json.dumps({k: v for k, v in r.items() if k != 'expect'})[:400]}: implementation "
                      f"{got}, specification {r['expect']} {('(' + str(detail)[:200] + ')') if detail else ''}",
                      {'kind': 'replay', 'module': module, 'family': family, 'case': r})
    if recs:
        rep.sample({'module': module, 'family': family, 'case': recs[len(recs) // 2]})
    rep.extra.setdefault('families', {})[f'{module}/{family}'] = {'cases': len(recs), 'states': res.distinct, 'mismatches': bad}
    return res


def judge(rep: Report, module: str, invariants: list, cases: list, label: str, *, consts=None, shards=10, known=None,
          timeout=3000, heap='4g'):
    """cases: JSON-able records (bytes as lists of ints < 2^31) each with the implementation's outcome."""
    if not cases:
        return
    d = tlc.scratch_dir('scn')
    try:
        shards = max(1, min(shards, len(cases)))
        paths = []
        for s in range(shards):
            p = os.path.join(d, f's{s}.json')
            with open(p, 'w') as f:
                json.dump(cases[s::shards], f)
            paths.append(p)
        text = cfg('trace', invariants + ['TraceCheck'], consts, emit=False)
        with ThreadPoolExecutor(max_workers=shards) as ex:
            results = list(ex.map(lambda p: tlc.run_tlc(module, text, workers=1, timeout=timeout, env={'TRACE_FILE': p}, heap=heap), paths))
    finally:
        shutil.rmtree(d, ignore_errors=True)
    for s, res in enumerate(results):
        rep.add_tlc(res, f'trace:{module}/{label}')
        if res.violated:
            raise tlc.MachineryError(f'{module} trace: ' + res.violated + res.errtrace[:1500])
        part = cases[s::shards]
        verd = {r['i']: r['v'] for r in res.records if isinstance(r, dict) and 'i' in r and 'v' in r}
        if len(verd) != len(part):
            raise tlc.MachineryError(f'{module} trace: {len(verd)} verdicts for {len(part)} cases\n' + res.output[-1500:])
        for i, cse in enumerate(part, 1):
            rep.case(json.dumps(cse, sort_keys=True)[:3000])
            v = verd[i]
            if v == 'ok':
                rep.traces += 1
                continue
            name = known(cse, v) if known else None
            if name:
                rep.known_finding(name, f'{label}: {json.dumps(cse)[:200]}')
                continue
            rep.violation(f'{label}: implementation case rejected by {module}.tla ({v}): {json.dumps(cse)[:500]}',
                          {'kind': 'trace', 'module': module, 'case': cse})
    rep.sample({'module': module, 'recorded_case': cases[len(cases) // 3]})
