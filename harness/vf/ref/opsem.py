"""Reference results of the named data primitives the TLA+ VM specification
does not evaluate itself (hashes, Ed25519, float32, big multiplication /
division).  For one instruction about to execute, `prims(...)` returns the
table of primitive applications the *documented* semantics would perform on
the current stack / operands, each keyed by its arguments.  The specification
computes the arguments itself and looks the result up; an entry with other
arguments is simply never used, so nothing here can make a wrong execution
acceptable - at worst a lookup misses (reported as a machinery failure).

Independent of tapescript: hashlib, struct, Python ints and vf.ref.ed25519."""
from __future__ import annotations
import hashlib, math, struct
from . import ed25519 as E

WILD = 'Exception'   # exception class left open by the specification


def enc(n: int) -> bytes:
    if n >= 0:
        ln = (n.bit_length() + 8) // 8
    else:
        ln = ((~n).bit_length() + 8) // 8
    return n.to_bytes(ln, 'big', signed=True)


def dec(b: bytes) -> int:
    return int.from_bytes(b, 'big', signed=True)


def ent(name, args, res=None, err=''):
    return {'n': name, 'a': [list(x) for x in args], 'r': [list(x) for x in (res or [])], 'e': err}


def message(sc: dict, flag: int) -> bytes:
    m = b''
    for i in range(1, 9):
        k = f'sigfield{i}'
        if k in sc and not (flag >> (i - 1)) & 1 and isinstance(sc[k], (bytes, bytearray)):
            m += bytes(sc[k])
    return m


def _f(b):
    return struct.unpack('!f', b)[0]


def _pf(x):
    return struct.pack('!f', x)


def _float_fold(name, items):
    try:
        if name == 'addf':
            tot = 0.0
            for it in items:
                tot += _f(it)
        else:
            tot = _f(items[0])
            for it in items[1:]:
                tot -= _f(it)
        if math.isnan(tot):
            return ent(name, items, err='ValueError')
        return ent(name, items, [_pf(tot)])
    except OverflowError:
        return ent(name, items, err='OverflowError')


def _float2(name, a, b):
    try:
        x, y = _f(a), _f(b)
        r = x / y if name == 'divf' else x % y
        if math.isnan(r):
            return ent(name, [a, b], err='ValueError')
        return ent(name, [a, b], [_pf(r)])
    except ZeroDivisionError:
        return ent(name, [a, b], err='ZeroDivisionError')
    except OverflowError:
        return ent(name, [a, b], err='OverflowError')


def _verify(key, msg, sig):
    return ent('verify', [key, msg, sig], [b'\xff' if E.verify(key, msg, sig) else b'\x00'])


def _pt_ok(b):
    return len(b) == 32 and E.decode(b, strict=False) is not None


def _addpts(items):
    """ADD_POINTS: all items popped first, then validated, then summed"""
    for x in items:          # validated one by one in the order they were taken: a wrong length is a TypeError, an invalid point a ValueError
        if len(x) != 32:
            return ent('addpts', items, err='TypeError')
        if not E.is_valid_point(x):
            return ent('addpts', items, err='ValueError')
    if not items:
        return ent('addpts', items, err='IndexError')
    acc = items[0]
    for x in items[1:]:
        acc = E.point_add(acc, x)
    return ent('addpts', items, [acc])


def _sub_chain(name, items):
    """SUBTRACT_SCALARS / SUBTRACT_POINTS: one binary application per further item"""
    out = []
    acc = items[0]
    for x in items[1:]:
        if len(acc) != 32 or len(x) != 32:
            out.append(ent(name, [acc, x], err='TypeError'))
            break
        if name == 'subpts':
            if not _pt_ok(acc) or not _pt_ok(x):
                out.append(ent(name, [acc, x], err='RuntimeError'))
                break
            nxt = E.point_sub(acc, x)
        else:
            nxt = E.scalar_sub(acc, x)
        out.append(ent(name, [acc, x], [nxt]))
        acc = nxt
    return out


def _addsc(items):
    if not items:
        return ent('addsc', items, err='IndexError')
    acc = items[0]
    for x in items[1:]:
        if len(acc) != 32 or len(x) != 32:
            return ent('addsc', items, err='TypeError')
        acc = E.scalar_add(acc, x)
    return ent('addsc', items, [acc])


def _base(scalar):
    """derive_point_from_scalar; None on libsodium error"""
    if len(scalar) != 32:
        return 'TypeError'
    if (E.sc(scalar) & ((1 << 255) - 1)) % E.L == 0 and False:
        return 'RuntimeError'
    r = E.base_mult_noclamp(scalar)
    if r == E.encode(E.IDENT):
        return 'RuntimeError'
    return r


def _agg(points):
    """aggregate_points: ValueError for invalid points"""
    for pt in points:
        if len(pt) != 32:
            return 'TypeError'
        if not E.is_valid_point(pt):
            return 'ValueError'
    acc = points[0]
    for x in points[1:]:
        acc = E.point_add(acc, x)
    return acc


def masu(T, m, seed):
    args = [T, m, seed]
    x = E.derive_key_from_seed(seed)
    X = _base(x)
    nonce = E.H_big(seed)[32:]
    r = E.clamp(E.H_small(E.H_big(nonce, m)))
    R = _base(r)
    if isinstance(R, str) or isinstance(X, str):
        return ent('masu', args, err=WILD)
    RT = _agg((R, T))
    if isinstance(RT, str):
        return ent('masu', args, err=RT)
    ca = E.clamp(E.H_small(RT, X, m))
    sa = E.scalar_add(r, E.scalar_mul(ca, x))
    return ent('masu', args, [r, R, sa])


def cas(X, T, m, R, sa):
    args = [X, T, m, R, sa]
    if len(sa) == 32 and sa[31] & 0x80:
        # bit 255 of sa is ignored by the scalar multiplication but not by decryption: not a valid adapter
        return ent('cas', args, [b'\x00'])
    if len(sa) != 32:
        return ent('cas', args, err='TypeError')
    saG = _base(sa)
    if isinstance(saG, str):
        return ent('cas', args, err=saG)
    RT = _agg((R, T))
    if isinstance(RT, str):
        return ent('cas', args, err=RT)
    ca = E.clamp(E.H_small(RT, X, m))
    if len(X) != 32:
        return ent('cas', args, err='TypeError')
    if not E.is_valid_point(X):
        return ent('cas', args, err='RuntimeError')
    caX = E.point_mul_noclamp(ca, X)
    if caX == E.encode(E.IDENT):
        return ent('cas', args, err='RuntimeError')
    RcaX = _agg((R, caX))
    if isinstance(RcaX, str):
        return ent('cas', args, err=RcaX)
    return ent('cas', args, [b'\xff' if saG == RcaX else b'\x00'])


def das(t_raw, R, sa):
    args = [t_raw, R, sa]
    t = E.clamp(t_raw)
    T = _base(t)
    if isinstance(T, str):
        return ent('das', args, err=T)
    RT = _agg((R, T))
    if isinstance(RT, str):
        return ent('das', args, err=RT)
    if len(sa) != 32:
        return ent('das', args, err='TypeError')
    return ent('das', args, [RT, E.scalar_add(sa, t)])


def taproot(pubkey, script):
    args = [pubkey, script]
    scalar = E.clamp(hashlib.sha256(pubkey + hashlib.sha256(script).digest()).digest())
    pt = _base(scalar)
    if isinstance(pt, str):
        return ent('taproot', args, err=pt)
    r = _agg((pt, pubkey))
    if isinstance(r, str):
        return ent('taproot', args, err=r)
    return ent('taproot', args, [r])


def prims(op: int, code: bytes, pc: int, stack: list, sc: dict, contracts: dict | None = None) -> list:
    """Primitive table for instruction `op` whose operands start at code[pc:]."""
    out = []
    n = len(stack)

    def top(k):           # k = 1 is the top of the stack
        return stack[n - k] if 1 <= k <= n else None

    def tops(k):          # first k items in pop order (as many as exist)
        return [stack[n - i] for i in range(1, min(k, n) + 1)]

    def opnd(off, ln=1):
        b = code[pc + off: pc + off + ln]
        return b if len(b) == ln else None

    try:
        if op == 16:
            c = opnd(0)
            if c is not None:
                items = tops(max(c[0], 1))
                if items and all(len(x) for x in items):
                    acc = dec(items[0])
                    for it in items[1:]:
                        x = dec(it)
                        out.append(ent('mul', [enc(acc), enc(x)], [enc(acc * x)]))
                        acc *= x
        elif op in (17, 19):
            s = opnd(0)
            if s is not None:
                dv = opnd(1, s[0])
                if dv and top(1):
                    a, b = dec(top(1)), dec(dv)
                    if b != 0:
                        out.append(ent('div' if op == 17 else 'mod', [enc(a), enc(b)],
                                       [enc(a // b if op == 17 else a % b)]))
        elif op in (18, 20):
            if top(1) and top(2):
                a, b = dec(top(1)), dec(top(2))
                if b != 0:
                    out.append(ent('div' if op == 18 else 'mod', [enc(a), enc(b)],
                                   [enc(a // b if op == 18 else a % b)]))
        elif op in (21, 22):
            c = opnd(0)
            if c is not None:
                k = c[0] if op == 21 else max(c[0], 1)
                items = tops(k)
                if len(items) == k and all(len(x) == 4 for x in items):
                    out.append(_float_fold('addf' if op == 21 else 'subf', items))
        elif op in (23, 25):
            dv = opnd(0, 4)
            if dv is not None and top(1) is not None and len(top(1)) == 4:
                out.append(_float2('divf' if op == 23 else 'modf', top(1), dv))
        elif op == 24:
            if n >= 2 and len(top(1)) == 4 and len(top(2)) == 4:
                out.append(_float2('divf', top(1), top(2)))
        elif op == 26:
            if n >= 2 and len(top(1)) == 4 and len(top(2)) == 4:
                out.append(_float2('modf', top(2), top(1)))
        elif op == 27:
            c = opnd(0)
            if c is not None:
                items = tops(c[0])
                if len(items) == c[0]:
                    out.append(_addpts(items))
        elif op in (78, 80):
            c = opnd(0)
            if c is not None and n:
                out.extend(_sub_chain('subsc' if op == 78 else 'subpts', tops(max(c[0], 1))))
        elif op == 30:
            if n:
                out.append(ent('sha256', [top(1)], [hashlib.sha256(top(1)).digest()]))
        elif op == 31:
            c = opnd(0)
            if c is not None and n:
                out.append(ent('shake256', [top(1), c], [hashlib.shake_256(top(1)).digest(c[0])]))
        elif op in (35, 36):
            if n >= 2 and len(top(1)) == 32 and len(top(2)) in (64, 65):
                sig = top(2)
                flag = sig[64] if len(sig) == 65 else 0
                out.append(_verify(top(1), message(sc, flag), sig[:64]))
        elif op == 60:
            if n >= 1:
                h1 = hashlib.sha256(top(1)).digest()
                out.append(ent('sha256', [top(1)], [h1]))
                out.append(ent('sha256', [h1], [hashlib.sha256(h1).digest()]))
            if n >= 2:
                out.append(ent('sha256', [top(2)], [hashlib.sha256(top(2)).digest()]))
        elif op in (65, 66):
            if n >= 2 and len(top(1)) == 4 and len(top(2)) == 4:
                a, b = _f(top(1)), _f(top(2))
                r = a < b if op == 65 else a <= b
                out.append(ent('fless' if op == 65 else 'fleq', [top(1), top(2)],
                               [b'\xff' if r else b'\x00']))
        elif op == 67:
            if top(1):
                try:
                    out.append(ent('i2f', [top(1)], [_pf(1.0 * dec(top(1)))]))
                except OverflowError:
                    out.append(ent('i2f', [top(1)], err='OverflowError'))
        elif op == 68:
            if n and len(top(1)) == 4:
                x = _f(top(1))
                if math.isnan(x):
                    out.append(ent('f2i', [top(1)], err='ValueError'))
                elif math.isinf(x):
                    out.append(ent('f2i', [top(1)], err='OverflowError'))
                else:
                    out.append(ent('f2i', [top(1)], [enc(int(x))]))
        elif op in (70, 71):
            m_, n_ = opnd(1), opnd(2)
            if m_ is not None and n_ is not None and n >= m_[0] + n_[0]:
                items = tops(m_[0] + n_[0])
                keys, sigs = items[:n_[0]], items[n_[0]:]
                seen = set()
                for s in sigs:
                    for k in keys:
                        if len(k) == 32 and len(s) in (64, 65) and (k, s) not in seen:
                            seen.add((k, s))
                            flag = s[64] if len(s) == 65 else 0
                            out.append(_verify(k, message(sc, flag), s[:64]))
        elif op == 72:
            f = opnd(0)
            if f is not None and n and len(top(1)) == 32:
                msg = message(sc, f[0])
                out.append(ent('sign', [top(1), msg], [E.sign(top(1), msg)]))
        elif op == 73:
            if n >= 2 and len(top(1)) == 32:
                out.append(ent('sign', [top(1), top(2)], [E.sign(top(1), top(2))]))
        elif op == 74:
            if n >= 3 and len(top(1)) == 32 and len(top(3)) == 64:
                out.append(_verify(top(1), top(2), top(3)))
        elif op == 75:
            if n:
                out.append(ent('derive_scalar', [top(1)], [E.derive_key_from_seed(top(1))]))
        elif op == 77:
            c = opnd(0)
            if c is not None:
                items = tops(c[0])
                if len(items) == c[0]:
                    out.append(_addsc(items))
        elif op == 79:
            if n:
                r = _base(top(1))
                out.append(ent('derive_point', [top(1)], err=r) if isinstance(r, str)
                           else ent('derive_point', [top(1)], [r]))
        elif op == 81:
            if n >= 3:
                out.append(masu(top(1), top(2), top(3)))
        elif op == 82:
            if n >= 3 and len(top(2)) >= 32:
                t = E.clamp(top(2))
                r = _base(t)
                out.append(ent('derive_point', [t], err=r) if isinstance(r, str) else ent('derive_point', [t], [r]))
        elif op == 83:
            if n >= 5:
                out.append(cas(*tops(5)))
        elif op == 84:
            if n >= 3 and len(top(1)) >= 32:
                out.append(das(top(1), top(2), top(3)))
        elif op == 85:
            if n >= 2 and top(2) and contracts and top(1) in contracts:
                cnt = dec(top(2))
                if 0 <= cnt <= n - 2:
                    args = [stack[n - 2 - i] for i in range(1, cnt + 1)]
                    res = contracts[top(1)].abi(list(args))
                    out.append(ent('abi', [top(1)] + args, list(res or [])))
        elif op == 91:
            if n >= 2 and len(top(1)) == 32:
                if len(top(2)) == 32:
                    if n >= 3:
                        out.append(taproot(top(2), top(3)))
                elif len(top(2)) in (64, 65):
                    sig = top(2)
                    flag = sig[64] if len(sig) == 65 else 0
                    out.append(_verify(top(1), message(sc, flag), sig[:64]))
    except Exception as e:      # a reference that cannot answer: the spec will miss the lookup
        out.append({'n': 'REFERROR', 'a': [], 'r': [], 'e': f'{type(e).__name__}: {e}'})
    return out
