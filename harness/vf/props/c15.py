"""C15 - hash- and point-time-locked contracts: claim and refund paths are exact."""
import random, sys
from ..par import SafePool
from ..common import Report, REPO
from .. import scncheck
from ..gen.progs import push, op
from ..ref import ed25519 as E
from ..ref.opsem import message

INV = ['AcceptIffClaimOrRefund', 'WrongPreimageNeverClaims', 'NoRefundBeforeTimeout', 'OtherKeyRejected']
CREATE = 1_700_000_000


def _impl():
    if REPO not in sys.path:
        sys.path.insert(0, REPO)
    import tapescript.functions as F
    import tapescript.tools as T
    return F, T


def sign_scalar(scalar: bytes, msg: bytes) -> bytes:
    """independent Ed25519-style signature with a raw scalar (verifies under scalar*G)"""
    X = E.base_mult_noclamp(scalar)
    r = E.sc(E.H_big(b'nonce', scalar, msg)) % E.L
    R = E.encode(E._mul(r, E.B))
    k = E.sc(E.H_big(R, X, msg)) % E.L
    return R + ((r + k * (E.sc(scalar) % E.L)) % E.L).to_bytes(32, 'little')


SLACK = 60        # the default ts_threshold


def one(F, T, k, seeds, sf, preimage, wrong, timeout, tw, tw_wrong, hash_size=20, flags='00', ahead=None, perturb=None, create=None, slack=SLACK):
    """create: the builders' clock when the lock is made; slack: the verifier's ts_threshold (60 = the default, through
    run_auth_scripts; any other value through run_script(witness + lock, additional_flags=...))"""
    CREATE = create if create is not None else globals()['CREATE']
    ahead = slack if ahead is None else ahead
    recv, refund, other = seeds
    pk_r, pk_f = E.public_key(recv), E.public_key(refund)
    old_tt, old_ft = T.time, F.time
    T.time = lambda: CREATE
    try:
        lk = k['lock']
        kw = dict(timeout=timeout, sigflags=flags)
        if lk == 'htlc_sha':
            lock = T.make_htlc_sha256_lock(pk_r, pk_f, preimage=preimage, **kw)
        elif lk == 'htlc_shake':
            lock = T.make_htlc_shake256_lock(pk_r, pk_f, preimage=preimage, hash_size=hash_size, **kw)
        elif lk == 'htlc2_sha':
            lock = T.make_htlc2_sha256_lock(pk_r, pk_f, preimage=preimage, **kw)
        elif lk == 'htlc2_shake':
            lock = T.make_htlc2_shake256_lock(pk_r, pk_f, preimage=preimage, hash_size=hash_size, **kw)
        elif lk == 'ptlc':
            lock = T.make_ptlc_lock(pk_r, pk_f, timeout=timeout, sigflags=flags)
        else:
            lock = T.make_ptlc_lock(pk_r, pk_f, tweak_point=E.base_mult_noclamp(tw), timeout=timeout, sigflags=flags)
        deadline = CREATE + timeout
        t = {'before': deadline - 1, 'at': deadline, 'after': deadline + 1, 'future': deadline + 1, 'slackm1': deadline}[k['tm']]
        now = t - ahead if k['tm'] == 'future' else t - (slack - 1) if k['tm'] == 'slackm1' else t
        pre = preimage if k['pre'] == 'right' else wrong
        s = k['signer']
        seed = {1: recv, 2: refund, 3: other}.get(s)
        w = k['wit']
        fl = int(flags, 16)
        if seed is not None:
            if w == 'htlc':
                wit = bytes(T.make_htlc_witness(seed, pre, dict(sf), flags).bytes)
            elif w == 'htlc2':
                wit = bytes(T.make_htlc2_witness(seed, pre, dict(sf), flags).bytes)
            elif w == 'ptlc':
                wit = bytes(T.make_ptlc_witness(seed, dict(sf), sigflags=flags).bytes)
            else:
                wit = bytes(T.make_ptlc_refund_witness(seed, dict(sf), flags).bytes)
        else:
            tweak = tw if s == 11 else tw_wrong
            if w == 'ptlc':
                wit = bytes(T.make_ptlc_witness(recv, dict(sf), tweak_scalar=tweak, sigflags=flags).bytes)
            else:
                x = E.scalar_add(E.derive_key_from_seed(recv), tweak)
                sig = sign_scalar(x, message(sf, fl)) + (bytes([fl]) if fl else b'')
                if w == 'htlc':
                    wit = push(sig) + push(pre)
                elif w == 'htlc2':
                    wit = push(sig) + push(pk_r) + push(pre)
                else:
                    wit = push(sig) + op('FALSE')
        F.time = lambda: now
        cache = {**sf, 'timestamp': t}
        if perturb:          # a sigfield changed after signing
            cache[perturb] = cache[perturb] + b'!'
        if slack == SLACK:
            ok = F.run_auth_scripts([wit, bytes(lock.bytes)], cache)
        else:
            try:
                _, st, _ = F.run_script(wit + bytes(lock.bytes), cache, additional_flags={'ts_threshold': slack})
                ok = st.list() == [b'\xff']
            except BaseException as e:
                if isinstance(e, (KeyboardInterrupt, SystemExit)):
                    raise
                ok = False
        return 'true' if ok else 'false'
    finally:
        T.time, F.time = old_tt, old_ft


def run_mc(k):
    F, T = _impl()
    sf = {'sigfield1': b'htlc', 'sigfield2': b'claim or refund'}
    tw = E.clamp(b'\x09' * 32)
    return one(F, T, k, (b'\x51' * 32, b'\x52' * 32, b'\x53' * 32), sf, b'preimage-0123456', b'not-the-preimage', 3600,
               tw, E.clamp(b'\x0a' * 32)), None


def record_random(args):
    seed, count = args
    F, T = _impl()
    out = []
    for j in range(count):
        r = random.Random(f'{seed}/{j}')
        seeds = (r.randbytes(32), r.randbytes(32), r.randbytes(32))
        sf = {f'sigfield{i}': r.randbytes(r.choice([1, 8, 40])) for i in range(1, 9) if r.random() < 0.5}
        sf.setdefault('sigfield2', b'x')
        pre = r.randbytes(r.randrange(1, 65))
        pre = pre if any(pre) and pre != b'\xff' else b'\x01'      # (x00 / xff are the FALSE / TRUE items of the PTLC witnesses)
        wrong = r.choice([r.randbytes(len(pre)) or b'\x01', pre + b'\x00', pre[:-1] or b'\x02'])
        if wrong == pre or not any(wrong):
            wrong = pre + b'\x01'
        k = {'lock': r.choice(['htlc_sha', 'htlc_shake', 'htlc2_sha', 'htlc2_shake', 'ptlc', 'ptlc_tweak']),
             'wit': r.choice(['htlc', 'htlc2', 'ptlc', 'ptlc_refund']), 'signer': r.choice([1, 1, 2, 2, 3, 11, 12]),
             'pre': r.choice(['right', 'wrong']), 'tm': r.choice(['before', 'at', 'after', 'future', 'slackm1'])}
        # sigflags (used as the lock's allowed byte and the witness's flag): an excluded field changed after signing keeps
        # the verdict; a covered field changed makes the signature invalid (modelled as a signature by another key)
        bit = r.randrange(8)
        flags = r.choice(['00', '00', f'{1 << bit:02x}', f'{(1 << bit) | r.randrange(255):02x}'])
        if flags == 'ff':
            flags = 'fe'
        perturb = None
        model = dict(k)
        pm = r.random()
        if pm < 0.25 and int(flags, 16):
            ex = [i for i in range(1, 9) if int(flags, 16) >> (i - 1) & 1]
            perturb = f'sigfield{r.choice(ex)}'
            sf.setdefault(perturb, b'e')
        elif pm < 0.4:
            cov = [i for i in range(1, 9) if not int(flags, 16) >> (i - 1) & 1]
            perturb = f'sigfield{r.choice(cov)}'
            sf.setdefault(perturb, b'c')
            model['signer'] = 3 if k['signer'] in (1, 2, 3) else 12
        # tweak scalars in every valid form (private-key clamp, reduced mod L, small), lock creation times on both sides of
        # 2^31 / 2^32 (deadline constraints of 4, 5 bytes), verifier slack 60 (default) / 5 / 3600
        def scalar():
            c = r.random()
            x = r.randbytes(32)
            if c < 0.4:
                return E.clamp(x)
            if c < 0.7:
                return (int.from_bytes(x, 'little') % E.L or 1).to_bytes(32, 'little')
            return r.choice([1, 2, 5, 7, 8, 255, 2 ** 128 + 3]).to_bytes(32, 'little')
        slack = r.choice([SLACK, SLACK, 5, 3600])
        tw_a, tw_b = scalar(), scalar()
        while E.sc(tw_b) % E.L == E.sc(tw_a) % E.L:
            tw_b = scalar()
        try:
            got = one(F, T, k, seeds, sf, pre, wrong, r.choice([1, 60, 86400, 10 ** 7]), tw_a, tw_b,
                      hash_size=r.choice([16, 20, 32]), flags=flags, ahead=r.choice([slack, slack, slack + 1, 10 ** 6]), perturb=perturb,
                      create=r.choice([CREATE, CREATE, 2 ** 31 - 30, 2 ** 31 + 5, 2 ** 32 - 10, 2 ** 32 + 10]), slack=slack)
        except BaseException as e:
            if isinstance(e, (KeyboardInterrupt, SystemExit)):
                raise
            got = f'raised-{type(e).__name__}'
        out.append({**model, 'got': got})
    return out


def main(tier: str, seed: int) -> int:
    rep = Report('C15', tier, seed)
    rep.rule = ('MC (Htlc.tla: the six lock scripts executed on symbolic items vs ClaimOK / RefundOK): 6 locks x 4 witness builders '
                '(all cross-pairings) x signer in {receiver, refund, another key, receiver + right tweak, receiver + wrong tweak} x '
                '{right, wrong preimage} x timestamp in {deadline-1, deadline, deadline+1, past the deadline and ahead of the pinned verifier clock by exactly the slack threshold '
                '(rejected), at the deadline and ahead by one second less (accepted)} = 1,200 '
                'cases; laws AcceptIffClaimOrRefund, WrongPreimageNeverClaims, NoRefundBeforeTimeout, OtherKeyRejected; each case is '
                'built with the real builders under pinned clocks (tools.time at creation, functions.time at the check) and run '
                'through run_auth_scripts. traces: random seeds, preimages of 1..64 bytes, digest sizes 16/20/32, timeouts from 1 s to '
                '10^7 s, tweak scalars in every valid form (private-key clamp, reduced mod L, small), lock creation times on both sides of 2^31 / 2^32, verifier slack 60 / 5 / 3600 (through additional_flags), sigfield sets, random sigflags bytes with excluded / covered fields changed after signing, judged by TLC.')
    rep.assumptions = ['ideal hashes / signatures', 'a wrong preimage is a non-zero byte string different from the preimage']
    quick = tier == 'quick'
    scncheck.mc(rep, 'Htlc', 'mc', INV, run_mc, workers=4)
    import multiprocessing as mp
    n = 10000 if quick else 60000
    with SafePool(14) as pool:
        cases = [c for ch in pool.map(record_random, [(seed * 59 + i, n // 28) for i in range(28)]) for c in ch]
    scncheck.judge(rep, 'Htlc', [], cases, 'random HTLC / PTLC scenarios')
    return rep.finish()


def replay(path: str) -> int:
    import json
    obj = json.load(open(path))
    if obj.get('kind') == 'replay':
        got, _ = run_mc(obj['case'])
        print(got, 'expected', obj['case']['expect'])
        return 0 if got == obj['case']['expect'] else 1
    return 2
