"""Independent pure-Python Ed25519 (RFC 8032 section 6 style) plus the group
operations tapescript exposes.  Deliberately shares no code with PyNaCl /
libsodium: it is the reference against which the implementation's use of
them is judged.  Not constant time; for verification only."""
import hashlib

p = 2 ** 255 - 19
L = 2 ** 252 + 27742317777372353535851937790883648493
d = -121665 * pow(121666, p - 2, p) % p
I = pow(2, (p - 1) // 4, p)


def _inv(x):
    return pow(x, p - 2, p)


def _xrecover(y):
    xx = (y * y - 1) * _inv(d * y * y + 1) % p
    x = pow(xx, (p + 3) // 8, p)
    if (x * x - xx) % p != 0:
        x = (x * I) % p
    if (x * x - xx) % p != 0:
        return None
    return x


By = 4 * _inv(5) % p
Bx = _xrecover(By)
if Bx % 2 != 0:
    Bx = p - Bx
B = (Bx, By, 1, Bx * By % p)
IDENT = (0, 1, 1, 0)


def _add(P, Q):
    x1, y1, z1, t1 = P
    x2, y2, z2, t2 = Q
    a = (y1 - x1) * (y2 - x2) % p
    b = (y1 + x1) * (y2 + x2) % p
    c = t1 * 2 * d * t2 % p
    dd = z1 * 2 * z2 % p
    e = b - a
    f = dd - c
    g = dd + c
    h = b + a
    return (e * f % p, g * h % p, f * g % p, e * h % p)


def _neg(P):
    x, y, z, t = P
    return ((-x) % p, y, z, (-t) % p)


def _mul(s, P):
    Q = IDENT
    while s > 0:
        if s & 1:
            Q = _add(Q, P)
        P = _add(P, P)
        s >>= 1
    return Q


def _eq(P, Q):
    x1, y1, z1, _ = P
    x2, y2, z2, _ = Q
    return (x1 * z2 - x2 * z1) % p == 0 and (y1 * z2 - y2 * z1) % p == 0


def encode(P) -> bytes:
    x, y, z, _ = P
    zi = _inv(z)
    x = x * zi % p
    y = y * zi % p
    return int.to_bytes(y | ((x & 1) << 255), 32, 'little')


def decode(s: bytes, strict: bool = False):
    """Point from 32 bytes or None."""
    if len(s) != 32:
        return None
    y = int.from_bytes(s, 'little')
    sign = y >> 255
    y &= (1 << 255) - 1
    if y >= p:
        if strict:
            return None
        y -= p   # libsodium's unpack accepts non-canonical y in some paths
    x = _xrecover(y)
    if x is None:
        return None
    if x == 0 and sign:
        return None if strict else None
    if (x & 1) != sign:
        x = p - x
    return (x, y, 1, x * y % p)


def is_valid_point(s: bytes) -> bool:
    """libsodium 1.0.18 crypto_core_ed25519_is_valid_point: canonical, on curve,
    not of small order, and x([L]P) == 0 (libsodium's main-subgroup test looks
    at the x coordinate only, so points of order 2L pass as well)."""
    if len(s) != 32:
        return False
    y = int.from_bytes(s, 'little') & ((1 << 255) - 1)
    if y >= p:
        return False
    P = decode(s, strict=True)
    if P is None:
        return False
    if _eq(_mul(8, P), IDENT):
        return False
    return _mul(L, P)[0] % p == 0


def scalar_reduce64(b: bytes) -> bytes:
    return (int.from_bytes(b, 'little') % L).to_bytes(32, 'little')


def sc(b: bytes) -> int:
    return int.from_bytes(b, 'little')


def sc_bytes(n: int) -> bytes:
    return (n % L).to_bytes(32, 'little')


def base_mult_noclamp(scalar: bytes) -> bytes:
    """crypto_scalarmult_ed25519_base_noclamp: top bit of the scalar ignored;
    a zero result is an error in libsodium."""
    n = sc(scalar) & ((1 << 255) - 1)
    return encode(_mul(n, B))


def point_add(a: bytes, b: bytes) -> bytes:
    return encode(_add(decode(a), decode(b)))


def point_sub(a: bytes, b: bytes) -> bytes:
    return encode(_add(decode(a), _neg(decode(b))))


def point_mul_noclamp(scalar: bytes, pt: bytes) -> bytes:
    n = sc(scalar) & ((1 << 255) - 1)
    return encode(_mul(n, decode(pt)))


def clamp(b: bytes, from_private_key: bool = False) -> bytes:
    x = bytearray(b[:32])
    if from_private_key:
        x[0] &= 0b11111000
        x[31] |= 0b01000000
    x[31] &= 0b01111111
    return bytes(x)


def H_big(*parts) -> bytes:
    return hashlib.sha512(b''.join(parts)).digest()


def H_small(*parts) -> bytes:
    return scalar_reduce64(H_big(*parts))


def derive_key_from_seed(seed: bytes) -> bytes:
    return clamp(H_big(seed)[:32], True)


def public_key(seed: bytes) -> bytes:
    return base_mult_noclamp(derive_key_from_seed(seed))


def sign(seed: bytes, msg: bytes) -> bytes:
    """RFC 8032 Ed25519 signature with a 32-byte seed."""
    h = H_big(seed)
    a = sc(clamp(h[:32], True))
    prefix = h[32:]
    A = encode(_mul(a, B))
    r = sc(H_big(prefix, msg)) % L
    R = encode(_mul(r, B))
    k = sc(H_big(R, A, msg)) % L
    S = (r + k * a) % L
    return R + S.to_bytes(32, 'little')


def verify(pub: bytes, msg: bytes, sig: bytes) -> bool:
    """Verification as libsodium does it: S canonical, R and A not of small
    order, A canonical; cofactorless equation [S]B = R + [k]A compared on the
    encoding of R."""
    if len(pub) != 32 or len(sig) != 64:
        return False
    S = int.from_bytes(sig[32:], 'little')
    if S >= L:
        return False
    A = decode(pub, strict=True)
    if A is None:
        return False
    if _eq(_mul(8, A), IDENT):
        return False
    Rb = sig[:32]
    R = decode(Rb)
    if R is not None and _eq(_mul(8, R), IDENT):
        return False
    k = sc(H_big(Rb, pub, msg)) % L
    chk = _add(_mul(S, B), _neg(_mul(k, A)))
    return encode(chk) == Rb


def scalar_add(a: bytes, b: bytes) -> bytes:
    """libsodium crypto_core_ed25519_scalar_add: the 32-byte inputs are added
    modulo 2^256 and the result is reduced modulo L (inputs need not be reduced)."""
    return (((sc(a) + sc(b)) % (1 << 256)) % L).to_bytes(32, 'little')


def scalar_negate(a: bytes) -> bytes:
    return ((-sc(a)) % L).to_bytes(32, 'little')


def scalar_sub(a: bytes, b: bytes) -> bytes:
    return scalar_add(a, scalar_negate(b))


def scalar_mul(a: bytes, b: bytes) -> bytes:
    return ((sc(a) * sc(b)) % L).to_bytes(32, 'little')
