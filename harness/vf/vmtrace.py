"""Validate recorded VM traces against TapeVMTrace.tla with TLC, in shards."""
from __future__ import annotations
import json, os, shutil
from concurrent.futures import ThreadPoolExecutor
from . import tlc

CFG = """SPECIFICATION TraceSpec
CHECK_DEADLOCK FALSE
"""


def _run_shard(args):
    path, n, timeout = args
    res = tlc.run_tlc('TapeVMTrace', CFG, workers=1, timeout=timeout,
                      env={'TRACE_FILE': path}, heap='3g')
    return res


def validate(traces: list, shards: int = 12, timeout: int = 1800) -> tuple[dict, list]:
    """Returns ({trace index -> verdict record}, [TlcResult...]).  The verdict record is
    what TapeVMTrace printed: {tid, ok, step, failed, id, expected?}."""
    if not traces:
        return {}, []
    shards = max(1, min(shards, len(traces)))
    d = tlc.scratch_dir('traces')
    try:
        jobs, index = [], []
        for s in range(shards):
            part = [(i, t) for i, t in enumerate(traces) if i % shards == s]
            if not part:
                continue
            path = os.path.join(d, f'shard{s}.json')
            with open(path, 'w') as f:
                json.dump([{'id': t.get('id', ''), 'cfg': t['cfg'], 'ev': t['ev']} for _, t in part], f)
            jobs.append((path, len(part), timeout))
            index.append([i for i, _ in part])
        with ThreadPoolExecutor(max_workers=len(jobs)) as ex:
            results = list(ex.map(_run_shard, jobs))
        verdicts = {}
        for res, idx in zip(results, index):
            if res.violated:
                raise tlc.MachineryError('TapeVMTrace: TLC reported ' + res.violated + '\n' + res.errtrace[:3000])
            for r in res.records:
                if isinstance(r, dict) and 'tid' in r:
                    # one record per disagreement (resynced ones have final = False) and a final record
                    i = idx[r['tid'] - 1]
                    v = verdicts.setdefault(i, {'ok': True, 'failures': [], 'done': False})
                    if not r['ok']:
                        v['failures'].append(r)
                        v['ok'] = False
                    if r.get('final'):
                        v['done'] = True
                        v['last'] = r
                        if r['ok'] is False and r not in v['failures']:
                            v['failures'].append(r)
            missing = [i for i in idx if i not in verdicts or not verdicts[i]['done']]
            if missing:
                raise tlc.MachineryError(f'TapeVMTrace: no verdict for traces {missing[:5]} '
                                         f'({len(missing)} of {len(idx)})\n' + res.output[-3000:])
        return verdicts, results
    finally:
        shutil.rmtree(d, ignore_errors=True)
