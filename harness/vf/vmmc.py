"""Exhaustive model checking of TapeVM program families (TapeVMMC.tla) and
replay of every explored behaviour through the real implementation."""
from __future__ import annotations
import json, os
from . import tlc
from .observe import Recorder

INVS = ['InvStackBounded', 'InvItemBounded', 'InvPcInRange', 'InvDepthBounded', 'InvLoopBounded',
        'InvConfigUniform', 'InvReturnScoped', 'InvNoPrimMiss', 'InvTopAtBoundary', 'InvVerdictExact',
        'InvAllScriptsRan', 'InvEmbedderFlags', 'EmitDone']
PROPS = ['NoSkip', 'CfgFrozen', 'NopExact', 'FlagsOnlyByFlagOps', 'PluginOnce']


def cfg_text(family: str, depth: int, emit: bool = True, invs=None, props=None) -> str:
    invs = INVS if invs is None else invs
    props = PROPS if props is None else props
    return ('SPECIFICATION Spec\nCONSTANTS\n'
            f'  Family = "{family}"\n  Bound = {depth}\n  Shard = 0\n  NShards = 1\n'
            f'  Emit = {"TRUE" if emit else "FALSE"}\n'
            + ''.join(f'INVARIANT {i}\n' for i in invs)
            + ''.join(f'PROPERTY {p}\n' for p in props)
            + 'CHECK_DEADLOCK FALSE\n')


def run_family(family: str, depth: int, *, emit: bool = True, workers=16, timeout=3000,
               coverage: bool = False, env=None, heap='12g'):
    return tlc.run_tlc('TapeVMMC', cfg_text(family, depth, emit), workers=workers, timeout=timeout,
                       coverage=coverage, env=env, heap=heap)


# --------------------------------------------------------------------------- replay
def _sc_from(rec):
    sc = {}
    for e in rec.get('sc', []):
        k = bytes(e['k']).decode('utf-8')
        if e['t'] == 'bytes':
            sc[k] = bytes(e['v'])
        elif e['t'] == 'int':
            sc[k] = (-1 if e['neg'] else 1) * int.from_bytes(bytes(e['v']), 'big')
        elif e['t'] == 'str':
            sc[k] = bytes(e['v']).decode('utf-8')
    return sc


def replay(rec: dict, recorder: Recorder, plugins=None, contracts=None, flags=None) -> list:
    """Run the behaviour's configuration through the real code; return the list of
    disagreements with the specification's outcome (empty = reproduced)."""
    scripts = [bytes(s) for s in rec['scripts']]
    sc = _sc_from(rec)
    now = int.from_bytes(bytes(rec.get('now', [])), 'big') if rec.get('now') else recorder.now
    old_now = recorder.now
    recorder.now = now
    cache_vals = dict(sc)
    if rec.get('ret0'):
        cache_vals['returned'] = True
    try:
        t = recorder.run(scripts, cache_vals, auth=rec['auth'], max_items=rec['lim'][0],
                         max_item_size=rec['lim'][1], callstack_limit=rec['lim'][2],
                         plugins=plugins, contracts=contracts, additional_flags=flags, keep_state=True)
    finally:
        recorder.now = old_now
    diffs = []
    out = t['outcome']
    exp_exc = '' if rec['exc'] == 'none' else rec['exc']
    got_exc = t['ev'][-1]['exc']
    if rec['auth']:
        if bool(out['verdict']) != bool(rec['verdict']):
            diffs.append(f"verdict: spec {rec['verdict']} impl {out['verdict']}")
    if (exp_exc == '') != (got_exc == '') or (exp_exc not in ('', 'Exception') and exp_exc != got_exc):
        diffs.append(f'exception: spec {exp_exc or None} impl {got_exc or None}')
    hist = [list(h) for h in recorder.hist]
    if hist != [list(h) for h in rec['hist']]:
        n = 0
        while n < min(len(hist), len(rec['hist'])) and hist[n] == list(rec['hist'][n]):
            n += 1
        diffs.append(f"executed-instruction sequence differs at step {n}: spec "
                     f"{rec['hist'][n] if n < len(rec['hist']) else None} impl {hist[n] if n < len(hist) else None}")
    # serialised error texts (written to cache key b'E') are opaque to the specification,
    # which uses the empty string for them in model-checking mode
    etexts = [e[2][0] for ev in t['ev'] for e in ev['cw'] if e[0] == [69] and e[1] and len(e[2]) == 1]
    opaque = lambda x: [] if list(x) in etexts else list(x)
    stack = [opaque(x) for x in recorder.final_stack]
    exp_stack = [list(x) for x in rec['stack']]
    if rec['auth'] and rec['status'] == 'done' and len(exp_stack) == 1:
        exp_stack = []        # run_auth_scripts removes the single remaining item to inspect it
    if stack != exp_stack:
        diffs.append(f"final stack: spec {rec['stack']} impl {stack}")
    bc = sorted([list(k), *_bcv(v)] for k, v in recorder.final_cache.items() if isinstance(k, (bytes, bytearray)))
    bc = [[k, l, [opaque(x) for x in v]] for k, l, v in bc]
    ebc = sorted([list(e[0]), bool(e[1]), [list(x) for x in e[2]]] for e in rec['bc'])
    if bc != ebc:
        diffs.append(f'byte-keyed cache: spec {ebc} impl {bc}')
    skeys = {k: v for k, v in recorder.final_cache.items() if isinstance(k, str) and k != 'returned'}
    exp_s = {'timestamp': now, **sc}
    if skeys != exp_s or any(type(skeys[k]) is not type(exp_s[k]) for k in skeys):
        diffs.append(f'string-keyed cache changed: {skeys} vs {exp_s}')
    if ('returned' in recorder.final_cache) != bool(rec['ret']):
        diffs.append(f"returned flag: spec {rec['ret']} impl {'returned' in recorder.final_cache}")
    if out['truncated']:
        diffs.append('implementation did not terminate within the event budget')
    return diffs


def _bcv(v):
    if isinstance(v, (list, tuple)):
        return [True, [list(x) for x in v]]
    return [False, [list(v)]]
