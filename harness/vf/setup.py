"""./check setup: parse every specification module, byte-compile nothing, fetch nothing."""
import glob, os
from . import tlc


def main():
    mods = sorted(os.path.basename(p)[:-4] for p in glob.glob(os.path.join(tlc.SPEC, '*.tla')))
    for m in mods:
        tlc.sany(m)
    print(f'setup ok: {len(mods)} modules parse')
    return 0
