#!/bin/bash
# run every check of a tier under several seeds (flushes out seed-dependent false alarms); last seed's evidence stays
tier=${1:-quick}; shift
cd /verif
for sd in "$@"; do
  for i in $(seq -w 1 20); do
    out=$(VERIF_SEED=$sd VERIF_TIER=$tier ./check C$i --tier $tier 2>&1); rc=$?
    echo "seed=$sd C$i rc=$rc $(echo "$out" | tail -1 | cut -c1-220)"
    if [ $rc -ne 0 ]; then echo "$out" | grep -E "VIOLATION|rejected|mismatch|Error" | head -5 | cut -c1-600; fi
  done
done
