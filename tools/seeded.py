#!/usr/bin/env python3
"""Confirm a seeded defect delivered by a sub-agent, store it under /verif/seeded/<id>/, and run the
matching check against /repo with the patch applied (undone straight afterwards).

  tools/seeded.py import <worktree> [<name> ...]      confirm + copy into /verif/seeded/
  tools/seeded.py run [<id> ...] [--tier quick]       apply to /repo, run ./check, undo, record
"""
import json, os, shutil, subprocess, sys, time

ROOT = os.path.dirname(os.path.dirname(os.path.abspath(__file__)))
SEEDED = os.path.join(ROOT, 'seeded')
PY = '/venv/bin/python'
BASE_FAIL = {'test_add_opcode_parsing_handlers_e2e', 'test_add_soft_fork_e2e', 'test_add_soft_fork_merklized_script_e2e'}


def sh(cmd, cwd=None, timeout=3600):
    p = subprocess.run(cmd, shell=True, cwd=cwd, capture_output=True, text=True, timeout=timeout)
    return p.returncode, p.stdout + p.stderr


def confirm(wt, name):
    d = os.path.join(wt, '_seeded', name)
    meta = json.load(open(os.path.join(d, 'meta.json')))
    patch = os.path.join(d, 'patch.diff')
    sh('git checkout -- tapescript', cwd=wt)
    rc, out = sh(f'git apply --check {patch}', cwd=wt)
    if rc:
        return None, f'patch does not apply: {out[-300:]}'
    rc0, out0 = sh(f'{PY} {d}/demo.py {wt}', cwd=wt, timeout=600)
    sh(f'git apply {patch}', cwd=wt)
    try:
        rc, out = sh(f'{PY} -m pytest -q -p no:cacheprovider --timeout=900 -q 2>&1 | tail -8', cwd=wt)
        failed = {l.split('::')[-1].split(' ')[0] for l in out.splitlines() if l.startswith('FAILED')}
        rc1, out1 = sh(f'{PY} {d}/demo.py {wt}', cwd=wt, timeout=600)
    finally:
        sh('git checkout -- tapescript', cwd=wt)
    ok = failed == BASE_FAIL and rc0 == 0 and rc1 != 0
    info = {'tests_failed_with_patch': sorted(failed), 'demo_rc_clean': rc0, 'demo_rc_patched': rc1,
            'demo_tail_patched': out1[-400:]}
    return (meta if ok else None), info


def cmd_import(wt, names):
    names = names or sorted(os.listdir(os.path.join(wt, '_seeded')))
    for name in names:
        meta, info = confirm(wt, name)
        if meta is None:
            print(f'REJECTED {name}: {info}')
            continue
        sid = f"{meta['property']}-{name}"
        dst = os.path.join(SEEDED, sid)
        os.makedirs(dst, exist_ok=True)
        for f in ('patch.diff', 'demo.py'):
            shutil.copy(os.path.join(wt, '_seeded', name, f), os.path.join(dst, f))
        meta.update({'id': sid, 'confirmed': info, 'confirmed_at': time.strftime('%Y-%m-%dT%H:%M:%SZ', time.gmtime()),
                     'ran': ['pytest with patch: only the 3 baseline failures', 'demo.py exits 0 on clean HEAD and non-zero with the patch']})
        json.dump(meta, open(os.path.join(dst, 'meta.json'), 'w'), indent=1)
        print(f'confirmed {sid}: {meta.get("summary", "")[:100]}')


def cmd_run_copy(ids, tier, props=None):
    """Like cmd_run, but the seeded change is applied to a scratch worktree of /repo under /tmp (removed straight
    afterwards) and the check is pointed at it with VERIF_REPO, so that /repo itself is never touched and several
    seeded changes can be run while other checks use /repo."""
    ids = ids or sorted(os.listdir(SEEDED))
    for sid in ids:
        d = os.path.join(SEEDED, sid)
        meta = json.load(open(os.path.join(d, 'meta.json')))
        wt = f'/tmp/seedrun_{os.getpid()}_{sid}'
        rc, out = sh(f'git -C /repo worktree add --detach {wt} HEAD')
        if rc:
            print(f'{sid}: cannot create worktree: {out[-200:]}'); continue
        results = {}
        try:
            rc, out = sh(f'git apply {d}/patch.diff', cwd=wt)
            if rc:
                print(f'{sid}: patch does not apply: {out[-200:]}'); continue
            ev = f'{ROOT}/.scratch/evidence_seeded_{os.getpid()}'
            for prop in (props or [meta['property']]):
                t0 = time.time()
                rc, out = sh(f'mkdir -p {ev} && VERIF_REPO={wt} VERIF_EVIDENCE_DIR={ev} ./check {prop} --tier {tier}', cwd=ROOT, timeout=7200)
                viol = [l for l in out.splitlines() if l.startswith('VIOLATION')]
                detail = [l for l in out.splitlines() if l.startswith('  ')][:2]
                results[prop] = {'rc': rc, 'violations': len(viol), 'first': (detail[0][:300] if detail else ''),
                                 'wall_s': round(time.time() - t0, 1), 'tier': tier, 'mode': 'scratch worktree + VERIF_REPO'}
                print(f"{sid}: check {prop} {tier} -> rc={rc} violations={len(viol)} {detail[0][:160] if detail else out[-200:]}")
        finally:
            sh(f'git -C /repo worktree remove --force {wt}')
        meta.setdefault('detection', {}).update(results)
        json.dump(meta, open(os.path.join(d, 'meta.json'), 'w'), indent=1)


def cmd_run(ids, tier, props=None):
    ids = ids or sorted(os.listdir(SEEDED))
    for sid in ids:
        d = os.path.join(SEEDED, sid)
        meta = json.load(open(os.path.join(d, 'meta.json')))
        rc, out = sh('git status --porcelain', cwd='/repo')
        if out.strip():
            print('refusing: /repo is not clean'); return 2
        rc, out = sh(f'git apply {d}/patch.diff', cwd='/repo')
        if rc:
            print(f'{sid}: patch does not apply to /repo: {out[-200:]}'); continue
        results = {}
        try:
            for prop in (props or [meta['property']]):
                t0 = time.time()
                rc, out = sh(f'mkdir -p {ROOT}/.scratch/evidence_seeded && VERIF_EVIDENCE_DIR={ROOT}/.scratch/evidence_seeded ./check {prop} --tier {tier}', cwd=ROOT, timeout=7200)
                viol = [l for l in out.splitlines() if l.startswith('VIOLATION')]
                detail = [l for l in out.splitlines() if l.startswith('  ')][:2]
                results[prop] = {'rc': rc, 'violations': len(viol), 'first': (detail[0][:300] if detail else ''),
                                 'wall_s': round(time.time() - t0, 1), 'tier': tier}
                print(f"{sid}: check {prop} {tier} -> rc={rc} violations={len(viol)} {detail[0][:160] if detail else out[-200:]}")
        finally:
            sh('git checkout -- .', cwd='/repo')
        meta.setdefault('detection', {}).update(results)
        json.dump(meta, open(os.path.join(d, 'meta.json'), 'w'), indent=1)


if __name__ == '__main__':
    a = sys.argv[1:]
    if a[0] == 'import':
        cmd_import(a[1], a[2:])
    elif a[0] == 'run':
        tier = 'quick'
        props = None
        rest = []
        i = 1
        while i < len(a):
            if a[i] == '--tier':
                tier = a[i + 1]; i += 2
            elif a[i] == '--prop':
                props = a[i + 1].split(','); i += 2
            else:
                rest.append(a[i]); i += 1
        if '--copy' in rest:
            rest.remove('--copy')
            sys.exit(cmd_run_copy(rest, tier, props) or 0)
        sys.exit(cmd_run(rest, tier, props) or 0)
