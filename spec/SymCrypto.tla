----------------------------- MODULE SymCrypto -----------------------------
(***************************************************************************)
(* A symbolic (generic-group / Dolev-Yao style) algebra for Ed25519        *)
(* scalars, points, hashes and signatures.                                 *)
(*                                                                         *)
(* A scalar is a finite linear combination over monomials of atoms with    *)
(* coefficients modulo a small prime Q: a set of <<monomial, coeff>> pairs *)
(* (monomial = a set of atoms, {} = the constant 1; coefficient in         *)
(* 1..Q-1).  A point is identified with its discrete logarithm.  Hashes    *)
(* are free constructors: H(args) is an atom, different arguments give     *)
(* different atoms.  Equality of normal forms is the generic notion        *)
(* "equal for all values of the atoms", so "fails if any input is          *)
(* altered" and "a scalar from another hop does not decrypt" are decidable.*)
(***************************************************************************)
EXTENDS Integers, FiniteSets, Sequences

Q == 7

\* atoms: <<tag, id, args>>   (args = a tuple of scalars for hash atoms, <<>> otherwise)
Atom(tag, id) == <<tag, id, <<>>>>
HashAtom(args) == <<"H", 0, args>>

Norm(s) == {p \in s : p[2] % Q # 0}
Monos(s) == {p[1] : p \in s}
Coeff(s, m) == IF \E p \in s : p[1] = m THEN (CHOOSE p \in s : p[1] = m)[2] ELSE 0
SAdd(a, b) == Norm({<<m, (Coeff(a, m) + Coeff(b, m)) % Q>> : m \in Monos(a) \cup Monos(b)})
SNeg(a) == {<<p[1], (Q - p[2]) % Q>> : p \in a}
SSub(a, b) == SAdd(a, SNeg(b))
SVar(atom) == {<<{atom}, 1>>}
SNum(n) == Norm({<<{}, n % Q>>})
SZero == {}
\* product of the scalar a with the atom h
SMulAtom(h, a) == {<<p[1] \cup {h}, p[2]>> : p \in a}
RECURSIVE SSum(_)
SSum(ss) == IF ss = <<>> THEN SZero ELSE SAdd(Head(ss), SSum(Tail(ss)))

\* messages are atoms too
Msg(i) == SVar(Atom("m", i))
\* the challenge of a signature / adapter: a hash atom over (nonce point, key point, message)
Chal(R, X, m) == HashAtom(<<R, X, m>>)

\* Ed25519 as used by tapescript, on discrete logs
Sign(x, m, r) == <<r, SAdd(r, SMulAtom(Chal(r, x, m), x))>>
Verify(X, m, R, s) == s = SAdd(R, SMulAtom(Chal(R, X, m), X))
=============================================================================
