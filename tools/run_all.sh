#!/bin/bash
# run every registered check of one tier sequentially on the current /repo tree; summary at the end
tier=${1:-quick}
cd "$(dirname "$0")/.."
rc_all=0
for p in C01 C02 C03 C04 C05 C06 C07 C08 C09 C10 C11 C12 C13 C14 C15 C16 C17 C18 C19 C20; do
  start=$(date +%s)
  out=$(./check $p --tier $tier 2>&1); rc=$?
  echo "$p rc=$rc $(( $(date +%s) - start ))s :: $(echo "$out" | tail -1 | cut -c1-200)"
  if [ $rc -ne 0 ]; then rc_all=1; echo "$out" | grep -A1 "^VIOLATION\|MACHINERY" | head -6; fi
done
exit $rc_all
