"""C09 - embedder configuration applies uniformly at every nesting level."""
import hashlib, json, os
from ..par import SafePool
from ..common import Report
from .. import vmcheck, vmmc, tlc
from ..gen.progs import push, op, b1, u16, block, InvokeContract
from ..gen.runs import SigExt, NOW
from ..observe import fkey
from ..ref import ed25519 as E, opsem

SEED = b'\x01' * 32


def _fl(d):
    return [[fkey(k), int(v)] for k, v in d.items()]


def build_data():
    """Probe programs (one per configurable behaviour), the settings to try for each, and
    the primitive results the specification needs for their fixed inputs."""
    x = E.derive_key_from_seed(SEED)
    pk = E.public_key(SEED)
    t = E.clamp(hashlib.sha256(b't').digest())
    T = E.base_mult_noclamp(t)
    m = b'm'
    sc = {'sigfield1': b'\xaa\xbb', 'sigfield3': b'\xcc', 'timestamp': NOW + 100}
    msg0 = opsem.message(sc, 0)
    masu = opsem.masu(T, m, SEED)
    r_, R, sa = [bytes(z) for z in masu['r']]
    das = opsem.das(t, R, sa)
    sig0 = E.sign(SEED, msg0)
    contract = InvokeContract(b'c1')
    prim = [
        opsem.ent('derive_scalar', [SEED], [x]),
        opsem.ent('derive_point', [x], [pk]),
        masu, das,
        opsem.ent('sign', [SEED, m], [E.sign(SEED, m)]),
        opsem.ent('sign', [SEED, msg0], [sig0]),
        opsem.ent('verify', [pk, msg0, sig0], [b'\xff']),
        opsem.ent('abi', [b'c1', b'a'], contract.abi([b'a'])),
    ]
    on_off = lambda k: [_fl({}), _fl({k: False})]
    tsc = (NOW).to_bytes(4, 'big')
    probes = [
        ('derive_scalar', push(SEED) + op('DERIVE_SCALAR'), on_off(1)),
        ('derive_point', push(x) + op('DERIVE_POINT'), on_off(2)),
        ('masu', push(SEED) + push(m) + push(T) + op('MAKE_ADAPTER_SIG_PUBLIC'),
         [_fl({}), _fl({3: False}), _fl({4: False}), _fl({6: False}), _fl({8: False}), _fl({3: False, 4: False, 6: False, 8: False})]),
        ('das', push(sa) + push(R) + push(t) + op('DECRYPT_ADAPTER_SIG'), [_fl({}), _fl({7: False}), _fl({9: False})]),
        ('sign_stack', push(m) + push(SEED) + op('SIGN_STACK'), on_off(9)),
        ('invoke', push(b'a') + push(b'\x01') + push(b'c1') + op('INVOKE'), on_off(0)),
        ('check_template', op('CHECK_TEMPLATE', b'\x00'), on_off(10)),
        ('get_message', op('GET_MESSAGE', b'\x00'), [_fl({})]),
        ('check_sig', push(sig0) + push(pk) + op('CHECK_SIG', b'\x00'), [_fl({})]),
        ('sign', push(SEED) + op('SIGN', b'\x00'), on_off(9)),
        ('check_multisig', op('CHECK_MULTISIG', b'\x00', b'\x00', b'\x00'), [_fl({})]),
        ('check_timestamp', push(tsc) + op('CHECK_TIMESTAMP'), [_fl({}), _fl({'ts_threshold': 200}), _fl({'ts_threshold': 0})]),
        ('check_epoch', push((NOW + 100).to_bytes(4, 'big')) + op('CHECK_EPOCH'), [_fl({}), _fl({'epoch_threshold': 200})]),
        ('eval', push(b'\x01') + op('EVAL'), [_fl({}), _fl({'disallow_OP_EVAL': True})]),
        ('eval_return', push(op('RETURN')) + op('EVAL') + push(b'\x09'), [_fl({}), _fl({'eval_return': True})]),
        ('unset_flag', op('UNSET_FLAG', b'\x01\x01') + push(SEED) + op('DERIVE_SCALAR'), [_fl({})]),
        ('set_flag', op('SET_FLAG', b'\x01\x01') + push(SEED) + op('DERIVE_SCALAR'), [_fl({1: False})]),
        # a flag instruction inside an evaluated script stays inside it: the gated instruction that follows the EVAL in
        # the evaluating tape still sees the embedder's setting (flag 1 off: no cache write of x)
        ('eval_flag_leak', push(op('SET_FLAG', b'\x01\x01')) + op('EVAL') + push(SEED) + op('DERIVE_SCALAR'), [_fl({1: False})]),
        ('eval_unflag_leak', push(op('UNSET_FLAG', b'\x01\x01')) + op('EVAL') + push(SEED) + op('DERIVE_SCALAR'), [_fl({})]),
        # limits: the family runs with callstack_limit = 8 (not the default 128): a loop that never ends by itself and a
        # self-recursive function must be stopped by that limit at every nesting level
        ('loop_limit', op('TRUE') + block('LOOP', op('TRUE')), [_fl({})]),
        ('call_depth', op('DEF', b1(5), u16(2), op('CALL', b1(5))) + op('CALL', b1(5)), [_fl({})]),
    ]
    plist = []
    for name, code, settings in probes:
        h1 = hashlib.sha256(code).digest()
        hh = hashlib.sha256(h1).digest()
        sib = hashlib.sha256(b'sibling').digest()
        hs = hashlib.sha256(sib).digest()
        root = bytes(a ^ b for a, b in zip(hh, hs))
        prim += [opsem.ent('sha256', [code], [h1]), opsem.ent('sha256', [h1], [hh]), opsem.ent('sha256', [sib], [hs])]
        tap = opsem.taproot(pk, code)
        prim.append(tap)
        plist.append({'name': name, 'code': list(code), 'flags': settings, 'msib': list(sib), 'mroot': list(root),
                      'tpk': list(pk), 'troot': tap['r'][0]})
    from ..observe import sc_entry
    return {'prim': prim, 'probes': plist, 'sc': [sc_entry(k, v) for k, v in sc.items()],
            'now': list(NOW.to_bytes(4, 'big')), 'contracts': [list(b'c1')]}, sc


def _replay_opts(rec):
    flags = {}
    for k, v in rec.get('flags', []):
        key = k['b'][0] if k['t'] == 'i' else k['s']
        flags[key] = bool(v) if k['t'] == 'i' or key in ('eval_return', 'disallow_OP_EVAL') else v
    return flags


def _replay_cfg(args):
    recs = args
    r = vmcheck._recorder()
    out = []
    for rec in recs:
        plugins = {'signature_extensions': [SigExt() for _ in range(rec['nsig'])]} if rec['nsig'] else {}
        contracts = {bytes(c): InvokeContract(bytes(c)) for c in rec['contracts']}
        # (the documented precedence: a contract supplied to the run overrides a VM-wide one with the same id)
        F = r.F
        shadow = [c for c in contracts if c not in F._contracts]
        for c in shadow:
            F.add_contract(c, InvokeContract(b'vm-wide-' + c))
        try:
            d = vmmc.replay(rec, r, plugins=plugins, contracts=contracts, flags=_replay_opts(rec))
        finally:
            for c in shadow:
                F.remove_contract(c)
        calls = sum(p.n for p in plugins.get('signature_extensions', []))
        if calls != rec['plug']:
            d.append(f"signature-extension plugin calls: spec {rec['plug']} impl {calls}")
        out.append(d)
    return out


def mc_cfg(rep: Report, depth: int):
    data, sc = build_data()
    d = tlc.scratch_dir('cfgdata')
    path = os.path.join(d, 'mcdata.json')
    with open(path, 'w') as f:
        json.dump(data, f)
    try:
        res = tlc.run_tlc('TapeVMMC', vmmc.cfg_text('cfg', depth), workers=16, timeout=3000, heap='12g',
                          env={'MC_HINT_FILE': path})
    finally:
        import shutil
        shutil.rmtree(d, ignore_errors=True)
    rep.add_tlc(res, f'mc:cfg/{depth}')
    if res.violated:
        rep.violation(f'TLC: {res.violated} violated in family cfg/{depth}', {'kind': 'mc', 'trace': res.errtrace[:4000]})
        return
    import multiprocessing as mp
    n = vmcheck.NPROC * 4
    chunks = [res.records[i::n] for i in range(n)]
    with SafePool(vmcheck.NPROC) as pool:
        outs = pool.map(_replay_cfg, chunks)
    bad = 0
    for ci, out in enumerate(outs):
        for j, dlist in enumerate(out):
            rec = res.records[ci + j * n]
            rep.case(json.dumps([rec['scripts'], rec['flags'], rec['nsig']]), len(rec['hist']) > 0)
            if not dlist:
                rep.traces += 1
                continue
            bad += 1
            rep.violation(f"replay of TLC behaviour (cfg/{depth}) not reproduced: script {bytes(rec['scripts'][0]).hex()} "
                          f"flags {_replay_opts(rec)} nsig {rec['nsig']}: {'; '.join(dlist)[:500]}",
                          {'kind': 'replay-cfg', 'record': rec})
    if res.records:
        r0 = res.records[len(res.records) // 2]
        rep.sample({'family': 'cfg', 'script': bytes(r0['scripts'][0]).hex(), 'flags': _replay_opts(r0), 'nsig': r0['nsig'],
                    'spec_plugin_calls': r0['plug'], 'spec_cache_keys': [bytes(e[0]).decode('latin1') for e in r0['bc']]})
    rep.extra.setdefault('families', {})[f'cfg/{depth}'] = {'behaviours': len(res.records), 'states': res.distinct,
                                                            'replay_mismatches': bad}


def main(tier: str, seed: int) -> int:
    rep = Report('C09', tier, seed)
    rep.rule = ('MC: TapeVMMC family cfg: 19 probe sequences (one per flag 0-10 writer, ts / epoch thresholds, '
                'disallow_OP_EVAL, eval_return, plugin-running instructions, INVOKE, SET/UNSET_FLAG, an endless loop and a '
                'self-recursive function under callstack_limit = 8) placed inside every '
                'nesting of {IF, IF_ELSE then, IF_ELSE else, TRY, EXCEPT, LOOP, DEF/CALL, EVAL} up to the depth bound with '
                'MERKLEVAL / TAPROOT script path as innermost wrappers, and after each construct, x the embedder settings '
                'that switch the probed behaviour x {0, 2} signature-extension plugins; invariants ConfigUniform, '
                'InvEmbedderFlags, action properties FlagsOnlyByFlagOps, PluginOnce; every behaviour replayed through '
                'run_script with real flags / counting plugins / contracts (cache effects, plugin call counts, outcome). '
                'traces: full-opcode generator under random configurations; C09 clause set = per-frame plugins / '
                'contracts visibility, effective flag table of the running tape, cumulative plugin calls.')
    rep.assumptions = ['flag-instruction probes sit in the same tape as the flag op (DESIGN appendix A)']
    quick = tier == 'quick'
    mc_cfg(rep, 1 if quick else 2)
    base = seed * 1_000_003
    n = 2000 if quick else 40000
    for off in range(0, n, 10000):
        traces = vmcheck.record([('vf.gen.runs:make_run', base + 77 + off + i, {'auth_ratio': 0.15}) for i in range(min(10000, n - off))])
        vmcheck.check_traces(rep, traces, 'make_run under random configurations')
    return rep.finish()


def replay(path: str) -> int:
    return vmcheck.replay_one(path, 'C09')
