-------------------------------- MODULE Htlc --------------------------------
(***************************************************************************)
(* Hash- and point-time-locked contracts (C15).  Six lock kinds - HTLC in  *)
(* two layouts x {SHA-256, SHAKE-256}, PTLC with / without tweak - as      *)
(* their scripts execute on symbolic items (ideal hashes / signatures),    *)
(* against the declarative claim / refund conditions.  Witness items:      *)
(*   sig(signer)  key(k)  pre(p) ("right" | "wrong")  bool                 *)
(* Keys: 1 = receiver, 2 = refund, 3 = another key; for the tweaked PTLC   *)
(* the receiver's signing scalar is x1 + t: signer 11 = receiver + right   *)
(* tweak, 12 = receiver + wrong tweak.                                     *)
(***************************************************************************)
EXTENDS Integers, Sequences, FiniteSets, Json, IOUtils, TLC

CONSTANTS Family, Emit
VARIABLE c

Sig(s) == [t |-> "sig", who |-> s]
Key(k) == [t |-> "key", who |-> k]
Pre(p) == [t |-> "pre", who |-> IF p = "right" THEN 1 ELSE 0]
Bool(b) == [t |-> "bool", who |-> IF b THEN 1 ELSE 0]
Truthy(i) == ~(i.t = "bool" /\ i.who = 0)
IsRightPre(i) == i.t = "pre" /\ i.who = 1

LockKinds == {"htlc_sha", "htlc_shake", "htlc2_sha", "htlc2_shake", "ptlc", "ptlc_tweak"}
WitKinds == {"htlc", "htlc2", "ptlc", "ptlc_refund"}
\* deadline - 1, deadline, deadline + 1 (verifier clock = t); "future": t past the deadline and ahead of the verifier clock
\* by the slack threshold or more (the enumerated case: exactly the threshold); "slackm1": t = deadline, ahead of the clock
\* by one second less than the threshold
Times == {"before", "at", "after", "future", "slackm1"}
\* the timestamp condition of the refund branch: t >= deadline and ahead of the clock by less than the slack threshold
TimeOK(tm) == tm \in {"at", "after", "slackm1"}

Cases(z) == [lock : LockKinds, wit : WitKinds, signer : {1, 2, 3, 11, 12}, pre : {"right", "wrong"}, tm : Times]

Witness(x) ==
    CASE x.wit = "htlc"  -> <<Sig(x.signer), Pre(x.pre)>>
      [] x.wit = "htlc2" -> <<Sig(x.signer), Key(IF x.signer \in {11, 12} THEN 1 ELSE x.signer), Pre(x.pre)>>
      [] x.wit = "ptlc"  -> <<Sig(x.signer), Bool(TRUE)>>
      [] x.wit = "ptlc_refund" -> <<Sig(x.signer), Bool(FALSE)>>

Top(s) == s[Len(s)]
Pop(s) == SubSeq(s, 1, Len(s) - 1)
\* CHECK_SIG(key k, item): a non-signature item is an error
CheckSig(k, i) == IF i.t # "sig" THEN "error" ELSE IF i.who = k THEN "true" ELSE "false"

\* HTLC: <hash> push digest equal if { push receiver } else { push deadline check_timestamp_verify push refund } check_sig
LockHtlc(st, tm) ==
    IF st = <<>> THEN <<"error", st>>
    ELSE LET claim == IsRightPre(Top(st)) s2 == Pop(st) IN
         IF ~claim /\ ~TimeOK(tm) THEN <<"error", s2>>
         ELSE IF s2 = <<>> THEN <<"error", s2>>
         ELSE <<CheckSig(IF claim THEN 1 ELSE 2, Top(s2)), Pop(s2)>>
\* HTLC2: ... if { dup shake256; push H(receiver) } else { deadline check; dup shake256; push H(refund) } equal_verify check_sig
LockHtlc2(st, tm) ==
    IF st = <<>> THEN <<"error", st>>
    ELSE LET claim == IsRightPre(Top(st)) s2 == Pop(st) want == IF claim THEN 1 ELSE 2 IN
         IF ~claim /\ ~TimeOK(tm) THEN <<"error", s2>>
         ELSE IF s2 = <<>> THEN <<"error", s2>>
         ELSE IF Top(s2) # Key(want) THEN <<"error", Pop(s2)>>           \* the supplied key does not hash to the committed one
         ELSE IF Pop(s2) = <<>> THEN <<"error", <<>> >>
         ELSE <<CheckSig(want, Top(Pop(s2))), Pop(Pop(s2))>>
\* PTLC: if { push receiver (+T) } else { deadline check; push refund } check_sig
LockPtlc(st, tm, tweaked) ==
    IF st = <<>> THEN <<"error", st>>
    ELSE LET claim == Truthy(Top(st)) s2 == Pop(st) IN
         IF ~claim /\ ~TimeOK(tm) THEN <<"error", s2>>
         ELSE IF s2 = <<>> THEN <<"error", s2>>
         ELSE <<CheckSig(IF claim THEN (IF tweaked THEN 11 ELSE 1) ELSE 2, Top(s2)), Pop(s2)>>

LockOf(x, st) == CASE x.lock \in {"htlc_sha", "htlc_shake"} -> LockHtlc(st, x.tm)
                   [] x.lock \in {"htlc2_sha", "htlc2_shake"} -> LockHtlc2(st, x.tm)
                   [] x.lock = "ptlc" -> LockPtlc(st, x.tm, FALSE)
                   [] x.lock = "ptlc_tweak" -> LockPtlc(st, x.tm, TRUE)
Accept(x) == LET r == LockOf(x, Witness(x)) IN r[1] = "true" /\ r[2] = <<>>

\* ---- the declarative conditions -------------------------------------------------------------------------
IsHtlc(x) == x.lock \in {"htlc_sha", "htlc_shake", "htlc2_sha", "htlc2_shake"}
Receiver(x) == IF x.lock = "ptlc_tweak" THEN 11 ELSE 1
\* which witnesses present the right shape for the lock's layout
Shape(x) == CASE x.lock \in {"htlc_sha", "htlc_shake"} -> x.wit \in {"htlc", "ptlc", "ptlc_refund"}     \* <signature, one item>
              [] x.lock \in {"htlc2_sha", "htlc2_shake"} -> x.wit = "htlc2"                              \* <signature, key, one item>
              [] OTHER -> x.wit \in {"htlc", "ptlc", "ptlc_refund"}
\* does the witness select the claim path?  HTLC: the item is the right preimage; PTLC: the item is truthy
ClaimPath(x) == IF IsHtlc(x) THEN x.wit \in {"htlc", "htlc2"} /\ x.pre = "right"
                ELSE x.wit \in {"htlc", "ptlc"}
ClaimOK(x) == Shape(x) /\ ClaimPath(x) /\ x.signer = Receiver(x)
RefundOK(x) == Shape(x) /\ ~ClaimPath(x) /\ x.signer = 2 /\ TimeOK(x.tm)

TraceLog == JsonDeserialize(IOEnv.TRACE_FILE)
Init == IF Family = "trace" THEN c \in {[lock |-> "t", i |-> i] : i \in 1..Len(TraceLog)} ELSE c \in Cases(0)
Next == UNCHANGED c
Spec == Init /\ [][Next]_c

NotT == c.lock # "t"
AcceptIffClaimOrRefund == NotT => (Accept(c) <=> (ClaimOK(c) \/ RefundOK(c)))
WrongPreimageNeverClaims == NotT /\ IsHtlc(c) /\ c.pre = "wrong" /\ c.signer # 2 => ~Accept(c)
NoRefundBeforeTimeout == NotT /\ ~TimeOK(c.tm) /\ ~ClaimPath(c) => ~Accept(c)
OtherKeyRejected == NotT /\ c.signer \in {3, 12} => ~Accept(c)

Out == [lock |-> c.lock, wit |-> c.wit, signer |-> c.signer, pre |-> c.pre, tm |-> c.tm, expect |-> IF Accept(c) THEN "true" ELSE "false"]
EmitCase == ~NotT \/ ~Emit \/ PrintT(ToJson(Out))
TraceCheck == NotT \/ LET r == TraceLog[c.i]
                          x == [lock |-> r.lock, wit |-> r.wit, signer |-> r.signer, pre |-> r.pre, tm |-> r.tm]
                      IN PrintT(ToJson([i |-> c.i, v |-> IF r.got = (IF Accept(x) THEN "true" ELSE "false") THEN "ok" ELSE "verdict"]))
=============================================================================
