"""C16 - time constraints accept exactly their documented window."""
import json, os, random, shutil, sys
from concurrent.futures import ThreadPoolExecutor
from ..common import Report, REPO
from .. import tlc
from ..gen.progs import push, op
from ..ref.opsem import enc

NOW = 1_700_000_000
CFG = '''SPECIFICATION Spec
CONSTANTS
  Family = "%s"
  Emit = TRUE
INVARIANT InvWindows
INVARIANT InvF10Exact
INVARIANT EmitCase
INVARIANT TraceCheck
CHECK_DEADLOCK FALSE
'''
OPS = {'cts': 'CHECK_TIMESTAMP', 'ctsv': 'CHECK_TIMESTAMP_VERIFY', 'ce': 'CHECK_EPOCH', 'cev': 'CHECK_EPOCH_VERIFY'}


def _impl():
    if REPO not in sys.path:
        sys.path.insert(0, REPO)
    import tapescript.functions as F
    import tapescript.tools as T
    return F, T


def build_script(T, kind, a, b, pad, vfy):
    """(real script bytes, the documented instruction sequence for the same parameters)"""
    if kind in OPS:
        s = push(a.to_bytes(max(pad, (a.bit_length() + 7) // 8, 1), 'big')) + op(OPS[kind])
        return s, s
    if kind == 'after':
        doc = push(enc(a)) + (op('CHECK_TIMESTAMP_VERIFY') if vfy else op('CHECK_TIMESTAMP'))
        return bytes(T.make_timestamp_after_lock(a, vfy).bytes), doc
    if kind == 'before':
        doc = push(enc(a)) + op('CHECK_TIMESTAMP') + op('NOT') + (op('VERIFY') if vfy else b'')
        return bytes(T.make_timestamp_before_lock(a, vfy).bytes), doc
    doc = push(enc(a)) + op('CHECK_TIMESTAMP_VERIFY') + push(enc(b)) + op('CHECK_TIMESTAMP') + op('NOT') + (op('VERIFY') if vfy else b'')
    return bytes(T.make_timestamp_between_lock(a, b, vfy).bytes), doc


def run_real(F, script, kind, t, now, thr):
    old = F.time
    F.time = lambda: now
    try:
        flags = {'epoch_threshold': thr} if kind in ('ce', 'cev') else {'ts_threshold': thr}
        try:
            _, stack, _ = F.run_script(script, {'timestamp': t}, additional_flags=flags)
        except BaseException as e:
            if isinstance(e, (KeyboardInterrupt, SystemExit)):
                raise
            return 'error'
        if len(stack) == 0:
            return 'empty'
        return 'true' if any(stack.list()[-1]) else 'false'
    finally:
        F.time = old


def main(tier: str, seed: int) -> int:
    rep = Report('C16', tier, seed)
    rep.rule = ('MC (Timelock.tla: the real instruction semantics of TapeVM run inside TLC on the documented lock sequences vs the '
                'declarative windows on BigInt): exhaustive grid - t within +-2/3 of every boundary of both clauses (now, '
                'now+thr), c within +-2 of t, thr in {-1,0,1,2,60}, constraint encodings of 2/3/9 zero-padded bytes, the four '
                'instructions and the three builders with op_verify both ways (18,900 cases); each grid point is shifted to '
                'now = 1.7e9 and replayed through run_script with the pinned clock using the real builders, whose bytes are '
                'also compared with the documented sequence. traces: random values up to 63 bits logged as byte strings with '
                'the real builder bytes (30 % wrapped as an evaluated script, 15 % placed in an EXCEPT clause, where the configured thresholds must still apply) and outcome; TLC runs those bytes on TapeVM and compares with the implementation and '
                'the declarative window (limb arithmetic).')
    rep.assumptions = ['the between lock is read as begin <= t < end within slack (it starts with CHECK_TIMESTAMP_VERIFY)',
                       'a negative epoch_threshold is a documented malformed-flag error']
    F, T = _impl()
    quick = tier == 'quick'
    res = tlc.run_tlc('Timelock', CFG % 'grid', workers=4, timeout=1800, heap='6g')
    rep.add_tlc(res, 'mc:grid')
    if res.violated:
        rep.violation(f'TLC: {res.violated} in Timelock grid', {'kind': 'mc', 'trace': res.errtrace[:3000]})
    else:
        rep.exhaustive = True
        delta = NOW - 1000
        for r in res.records:
            U = lambda m: int.from_bytes(bytes(m), 'big')
            t, a, b = U(r['t']) + delta, U(r['a']) + delta, U(r['b']) + delta
            pad = {2: 4, 3: 5, 9: 9}.get(r['pad'], 1)
            rep.case(json.dumps([r['kind'], r['t'], r['a'], r['b'], r['thr'], r['pad'], r['vfy']]))
            try:
                script, doc = build_script(T, r['kind'], a, b, pad, r['vfy'])
            except Exception as e:
                from ..scncheck import raised_in_repo
                if not raised_in_repo(e):
                    raise
                rep.violation(f"builder {r['kind']} raised {type(e).__name__}: {e} for a={a} b={b} vfy={r['vfy']}", {'kind': 'builder', 'record': r})
                continue
            if script != doc:
                rep.violation(f"builder {r['kind']} output {script.hex()} is not the documented sequence {doc.hex()}",
                              {'kind': 'builder', 'record': r})
                continue
            got = run_real(F, script, r['kind'], t, NOW, r['thr'])
            if r['f10']:
                if got in ('true', 'empty'):
                    rep.known_finding('F10-before-lock-slack', f"before lock ts={a} accepts t={t} at now={NOW} thr={r['thr']}")
                    continue
                # the deviation has disappeared: the declarative window applies
            if got != r['expect']:
                rep.violation(f"grid point {r['kind']} t={t} now={NOW} thr={r['thr']} a={a} b={b} vfy={r['vfy']}: "
                              f"implementation {got}, specification {r['expect']}", {'kind': 'replay', 'record': r})
            else:
                rep.traces += 1
        rep.sample({'grid_case': res.records[len(res.records) // 2]})
    # code -> spec: random large values
    rng = random.Random(seed)
    cases = []
    for i in range(1500 if quick else 30000):
        kind = rng.choice(['cts', 'ctsv', 'ce', 'cev', 'after', 'before', 'between'])
        bits = rng.choice([8, 31, 32, 40, 62, 63])
        now = rng.getrandbits(bits) + 100
        thr = rng.choice([-5, 0, 1, 60, 3600, 2 ** 20])
        t = max(0, now + rng.choice([-thr - 1, -1, 0, 1, thr - 1, thr, thr + 1, rng.randrange(-10 ** 6, 10 ** 6)]))
        a = max(0, t + rng.choice([-1, 0, 1, rng.randrange(-1000, 1000)]))
        b = a + rng.choice([0, 1, 2, 1000])
        vfy = rng.random() < 0.5
        pad = rng.choice([1, 8, 9])
        try:
            script, doc = build_script(T, kind, a, b, pad, vfy)
        except Exception as e:
            from ..scncheck import raised_in_repo
            if not raised_in_repo(e):
                raise
            rep.violation(f"builder {kind} raised {type(e).__name__}: {e} for a={a} b={b} vfy={vfy}", {'kind': 'builder', 'case': [kind, a, b, vfy]})
            continue
        wrap = rng.random()
        if wrap < 0.3:           # the same lock as a committed script (scripthash / taproot script path style): inside EVAL
            script = push(script) + op('EVAL')
        elif wrap < 0.45:        # ... or in the EXCEPT clause of a TRY that raised
            from ..gen.progs import block
            script = block('TRY_EXCEPT', op('FALSE') + op('VERIFY'), script)
        got = run_real(F, script, kind, t, now, thr)
        B = lambda n: list(n.to_bytes((n.bit_length() + 7) // 8, 'big'))
        cases.append({'kind': kind, 't': B(t), 'now': B(now), 'thr': thr, 'a': B(a), 'b': B(b), 'pad': pad, 'vfy': vfy,
                      'script': list(script), 'got': got})
    d = tlc.scratch_dir('time')
    try:
        shards = 8
        paths = []
        for s in range(shards):
            p = os.path.join(d, f's{s}.json')
            with open(p, 'w') as f:
                json.dump(cases[s::shards], f)
            paths.append(p)
        with ThreadPoolExecutor(max_workers=shards) as ex:
            results = list(ex.map(lambda p: tlc.run_tlc('Timelock', CFG % 'trace', workers=1, timeout=1800,
                                                        env={'TRACE_FILE': p}, heap='3g'), paths))
    finally:
        shutil.rmtree(d, ignore_errors=True)
    for s, res in enumerate(results):
        rep.add_tlc(res, 'trace')
        part = cases[s::shards]
        verd = {r['i']: r['v'] for r in res.records if isinstance(r, dict) and 'i' in r}
        if len(verd) != len(part):
            raise tlc.MachineryError(f'Timelock trace: {len(verd)} verdicts for {len(part)} cases')
        for i, cse in enumerate(part, 1):
            rep.case(json.dumps(cse, sort_keys=True))
            v = verd[i]
            if v == 'ok':
                rep.traces += 1
            elif v == 'F10':
                rep.known_finding('F10-before-lock-slack', f"before lock: {json.dumps({k: cse[k] for k in ('t', 'now', 'thr', 'a')})}")
            else:
                rep.violation(f'implementation case rejected by Timelock.tla ({v}): {json.dumps(cse)[:300]}', {'kind': 'trace', 'case': cse})
    rep.sample({'trace_case': cases[0]})
    return rep.finish()


def replay(path: str) -> int:
    print('re-run ./check C16: cases are regenerated deterministically from VERIF_SEED')
    return 2
