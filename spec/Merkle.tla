------------------------------- MODULE Merkle -------------------------------
(***************************************************************************)
(* Merklized scripts (C04).  Trees: <<"L", id>> | <<"N", left, right>>.    *)
(* Hashes are free constructors; the root of a node is the XOR of the      *)
(* hashes of its children's commitments = their symmetric difference.      *)
(*   ScriptOf(leaf i) = the leaf's script     ScriptOf(node) = MERKLEVAL root *)
(*   Commit(x) = Sha(ScriptOf(x))   Root(node) = Sha(Commit(l)) (+) Sha(Commit(r)) *)
(* Exec models a chain of OP_MERKLEVAL steps on the supplied               *)
(* <<sibling commitment, script>> pairs: hash, compare with the expected   *)
(* root, raise BEFORE anything is evaluated on mismatch, else evaluate the *)
(* script (a sub-lock or a leaf).                                          *)
(***************************************************************************)
EXTENDS Integers, Sequences, FiniteSets, Json, IOUtils, TLC

CONSTANTS Family, Emit, MaxLeaves
VARIABLE c

Sha(x) == <<"sha", x>>
SymDiff(A, B) == (A \ B) \cup (B \ A)
RECURSIVE Root(_), ScriptOf(_)
ScriptOf(t) == IF t[1] = "L" THEN <<"script", t[2]>> ELSE <<"lock", Root(t)>>
Commit(t) == Sha(ScriptOf(t))
Root(t) == SymDiff({Sha(Commit(t[2]))}, {Sha(Commit(t[3]))})

RECURSIVE Trees(_, _)
Trees(lo, hi) == IF lo = hi THEN {<<"L", lo>>}
                 ELSE UNION { {<<"N", l, r>> : l \in Trees(lo, k), r \in Trees(k + 1, hi)} : k \in lo..(hi - 1) }
RECURSIVE Leaves(_)
Leaves(t) == IF t[1] = "L" THEN {t[2]} ELSE Leaves(t[2]) \cup Leaves(t[3])

\* unlocking data of a leaf: pairs [sib, script] from the root's level (first) down to the leaf (last)
RECURSIVE Unlock(_, _)
Unlock(t, leaf) == IF t[1] = "L" THEN <<>>
                   ELSE IF leaf \in Leaves(t[2]) THEN <<[sib |-> Commit(t[3]), script |-> ScriptOf(t[2])]>> \o Unlock(t[2], leaf)
                   ELSE <<[sib |-> Commit(t[2]), script |-> ScriptOf(t[3])]>> \o Unlock(t[3], leaf)

\* the chain of MERKLEVAL steps: <<leaf that ran (0 = none), items left over, depth reached>>
RECURSIVE Exec(_, _, _)
Exec(root, pairs, d) ==
    IF pairs = <<>> THEN <<0, 0, d>>                                  \* nothing to take from the stack: error
    ELSE LET p == Head(pairs) IN
         IF SymDiff({Sha(Sha(p.script))}, {Sha(p.sib)}) # root THEN <<0, Len(pairs) - 1, d>>    \* raised before any evaluation
         ELSE IF p.script[1] = "script" THEN <<p.script[2], Len(pairs) - 1, d + 1>>
         ELSE Exec(p.script[2], Tail(pairs), d + 1)

\* ---- corruptions of a proof ---------------------------------------------------------------------
Corruptions == {"none", "script", "sib", "swap", "drop", "foreign", "extra"}
Foreign == <<"script", 99>>
Corrupt(pairs, kind, lvl) ==
    CASE kind = "none"   -> pairs
      [] kind = "script" -> [pairs EXCEPT ![Len(pairs)].script = Foreign]                \* a byte of the leaf script changed
      [] kind = "sib"    -> [pairs EXCEPT ![lvl].sib = Sha(<<"script", 98>>)]
      [] kind = "swap"   -> IF Len(pairs) >= 2 THEN [pairs EXCEPT ![1] = pairs[2], ![2] = pairs[1]] ELSE pairs
      [] kind = "drop"   -> Tail(pairs)
      [] kind = "foreign" -> [i \in 1..Len(pairs) |-> [sib |-> Sha(<<"script", 90 + i>>), script |-> pairs[i].script]]
      [] kind = "extra"  -> pairs \o <<[sib |-> Sha(<<"script", 97>>), script |-> Foreign]>>      \* junk below the proof

\* ---- builder shapes -------------------------------------------------------------------------------
\* filler leaves have ids <= 0
RECURSIVE Prio(_, _)
Prio(i, n) == IF i = n - 1 THEN <<"N", <<"L", i>>, <<"L", n>>>> ELSE <<"N", <<"L", i>>, Prio(i + 1, n)>>
PrioShape(n) == IF n = 1 THEN <<"N", <<"L", 1>>, <<"L", 0>>>> ELSE Prio(1, n)
RECURSIVE PairUp(_, _)
PairUp(xs, fill) == \* combine a sequence of trees two at a time (odd count: pad with `fill` first)
    LET ys == IF Len(xs) % 2 = 1 THEN Append(xs, fill) ELSE xs IN
    [i \in 1..(Len(ys) \div 2) |-> <<"N", ys[2 * i - 1], ys[2 * i]>>]
RECURSIVE BalLevels(_, _)
BalLevels(nodes, k) == IF Len(nodes) = 1 THEN nodes[1]
                       ELSE BalLevels(PairUp(nodes, <<"N", <<"L", -2 * k>>, <<"L", -2 * k - 1>>>>), k + 1)
BalShape(n) == BalLevels(PairUp([i \in 1..n |-> <<"L", i>>], <<"L", 0>>), 1)
RECURSIVE DepthOf(_, _)
DepthOf(t, leaf) == IF t[1] = "L" THEN 0 ELSE 1 + (IF leaf \in Leaves(t[2]) THEN DepthOf(t[2], leaf) ELSE DepthOf(t[3], leaf))

\* ---- serialisation ------------------------------------------------------------------------------------
LeafBytes(i) == <<2, i % 256, 6, 1>>           \* push <id>; pop0; true
U16(n) == <<n \div 256, n % 256>>
RECURSIVE Pack(_)
Pack(t) == IF t[1] = "L" THEN LeafBytes(t[2])
           ELSE LET l == Pack(t[2]) r == Pack(t[3]) IN
                <<IF t[2][1] = "L" THEN 76 ELSE 78>> \o U16(Len(l)) \o l \o <<IF t[3][1] = "L" THEN 76 ELSE 78>> \o U16(Len(r)) \o r
RECURSIVE Unpack(_, _)
Unpack(b, isLeaf) == IF isLeaf THEN <<"L", b[2]>>
                     ELSE LET ll == b[2] * 256 + b[3]
                              lb == SubSeq(b, 4, 3 + ll)
                              rl == b[5 + ll] * 256 + b[6 + ll]
                              rb == SubSeq(b, 7 + ll, 6 + ll + rl)
                          IN <<"N", Unpack(lb, b[1] = 76), Unpack(rb, b[4 + ll] = 76)>>

\* ---- cases ----------------------------------------------------------------------------------------------
Cases(z) ==
    CASE Family = "shapes" -> UNION { UNION { { [k |-> "shape", t |-> t, leaf |-> lf, cor |-> cr, lvl |-> 1] : lf \in 1..n, cr \in Corruptions }
                                              : t \in Trees(1, n) } : n \in 2..MaxLeaves }
      [] Family = "builders" -> { [k |-> b, t |-> IF b = "prio" THEN PrioShape(n) ELSE BalShape(n), leaf |-> lf, cor |-> "none", lvl |-> 1] :
                                    b \in {"prio", "bal"}, n \in 1..MaxLeaves, lf \in 1..MaxLeaves } 
      [] Family = "trace" -> {}
TraceLog == JsonDeserialize(IOEnv.TRACE_FILE)
Init == IF Family = "trace" THEN c \in {[k |-> "t", i |-> i] : i \in 1..Len(TraceLog)}
        ELSE c \in { x \in Cases(0) : x.leaf \in Leaves(x.t) }
Next == UNCHANGED c
Spec == Init /\ [][Next]_c

Outcome(x) == Exec(Root(x.t), Corrupt(Unlock(x.t, x.leaf), x.cor, x.lvl), 0)

\* ---- laws ---------------------------------------------------------------------------------------------------
NotT == c.k # "t"
\* every committed branch can run: the generated proof executes exactly that leaf, nothing left over
Complete == NotT /\ c.cor = "none" => Outcome(c) = <<c.leaf, 0, DepthOf(c.t, c.leaf)>>
\* a proof that does not hash to the root runs nothing (junk below a valid proof does not stop the leaf, it fails the verdict)
Binding == NotT /\ c.cor \in {"script", "sib", "drop", "foreign"} => Outcome(c)[1] = 0
SwapFails == NotT /\ c.cor = "swap" /\ DepthOf(c.t, c.leaf) >= 2 => Outcome(c)[1] = 0
ExtraLeavesJunk == NotT /\ c.cor = "extra" => Outcome(c)[1] = c.leaf /\ Outcome(c)[2] = 1
\* sibling commitments differ at every node (precondition), so no root is empty
RECURSIVE RootsNonEmpty(_)
RootsNonEmpty(t) == t[1] = "L" \/ (Root(t) # {} /\ RootsNonEmpty(t[2]) /\ RootsNonEmpty(t[3]))
NoMirror == NotT => RootsNonEmpty(c.t)
PackRoundTrip == NotT => Unpack(Pack(c.t), c.t[1] = "L") = [c.t EXCEPT ![1] = c.t[1]] \/ \E l \in Leaves(c.t) : l <= 0

RECURSIVE ShapeStr(_)
ShapeStr(t) == IF t[1] = "L" THEN ToString(t[2]) ELSE "(" \o ShapeStr(t[2]) \o " " \o ShapeStr(t[3]) \o ")"
Out == [k |-> c.k, shape |-> ShapeStr(c.t), leaf |-> c.leaf, cor |-> c.cor, n |-> Cardinality(Leaves(c.t)),
        depth |-> DepthOf(c.t, c.leaf), pack |-> Pack(c.t),
        expect |-> <<Outcome(c)[1], Outcome(c)[2]>>]
EmitCase == ~NotT \/ ~Emit \/ PrintT(ToJson(Out))

\* trace cases: [shape as nested JSON arrays ["L", id] / ["N", l, r], leaf, cor, got = <<ran, leftover>>]
RECURSIVE TreeOf(_)
TreeOf(j) == IF j[1] = "L" THEN <<"L", j[2]>> ELSE <<"N", TreeOf(j[2]), TreeOf(j[3])>>
TraceCheck == NotT \/ LET r == TraceLog[c.i]
                          x == [k |-> "shape", t |-> TreeOf(r.t), leaf |-> r.leaf, cor |-> r.cor, lvl |-> r.lvl]
                          o == Outcome(x)
                      IN PrintT(ToJson([i |-> c.i, v |-> IF r.got[1] = o[1] /\ (o[1] = 0 \/ r.got[2] = o[2])
                                                                /\ (r.auth <=> (o[1] = r.leaf /\ o[2] = 0)) THEN "ok" ELSE "verdict"]))
=============================================================================
