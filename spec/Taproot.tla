------------------------------ MODULE Taproot ------------------------------
(***************************************************************************)
(* Taproot (C05) on the symbolic algebra.                                  *)
(*   Root(P, S) = P + clamp(sha256(P || sha256(S))) G   ~   p + h(P, S)    *)
(* The OP_TAPROOT step: second item of key length => script path           *)
(* (recompute, compare; on mismatch push false and enter nothing; else     *)
(* evaluate the script); otherwise key path = signature check under the    *)
(* root.  A case is a lock (internal key, committed script, allowed flags) *)
(* and a witness of one of the classes below.                              *)
(***************************************************************************)
EXTENDS SymCrypto, Json, IOUtils, TLC

CONSTANTS Family, Emit
VARIABLE c

P(k) == SVar(Atom("x", k))                         \* internal key k (scalar = point)
ScriptId(s) == SVar(Atom("script", s))
TweakOf(Pk, s) == SVar(HashAtom(<<Pk, ScriptId(s)>>))
Root(k, s) == SAdd(P(k), TweakOf(P(k), s))
Nonce(i) == SVar(Atom("r", i))

\* witness classes
\*  keyspend      signature by the scalar of the root over the sigfields
\*  keyinternal   signature by the internal key only
\*  keyother      signature by another key's root scalar (other key, same script)
\*  keyotherscript signature under the root of (same key, other script)
\*  scriptspend   (committed script, internal key)
\*  scriptother   (another script, internal key)
\*  scriptkeyother (committed script, another key)
\*  scriptroot    (committed script, the root itself as key)
WClasses == {"keyspend", "keyinternal", "keyother", "keyotherscript", "scriptspend", "scriptother", "scriptkeyother", "scriptroot"}
Other(i) == IF i = 1 THEN 2 ELSE 1

\* flag classes for the key path: "f0" no flag byte, "perm" permitted flag, "nonperm" non-permitted
Cases(z) == [k : {1, 2}, s : {1, 2}, w : WClasses, fl : {"f0", "perm", "nonperm"}, sv : {"true", "false"}, lock : {"native", "nonnative"}]

IsKeyPath(w) == w \in {"keyspend", "keyinternal", "keyother", "keyotherscript"}
SignerScalar(x) == CASE x.w = "keyspend" -> Root(x.k, x.s)
                     [] x.w = "keyinternal" -> P(x.k)
                     [] x.w = "keyother" -> Root(Other(x.k), x.s)
                     [] x.w = "keyotherscript" -> Root(x.k, Other(x.s))
SuppliedPair(x) == CASE x.w = "scriptspend" -> <<P(x.k), x.s>>
                     [] x.w = "scriptother" -> <<P(x.k), Other(x.s)>>
                     [] x.w = "scriptkeyother" -> <<P(Other(x.k)), x.s>>
                     [] x.w = "scriptroot" -> <<Root(x.k, x.s), x.s>>

\* the OP_TAPROOT step
KeyPathVerdict(x) ==
    IF x.fl = "nonperm" THEN "error"
    ELSE LET sig == Sign(SignerScalar(x), Msg(1), Nonce(1)) IN
         IF Verify(Root(x.k, x.s), Msg(1), sig[1], sig[2]) THEN "true" ELSE "false"
Recomputed(pair) == SAdd(pair[1], SVar(HashAtom(<<pair[1], ScriptId(pair[2])>>)))
ScriptRuns(x) == ~IsKeyPath(x.w) /\ Recomputed(SuppliedPair(x)) = Root(x.k, x.s)
Verdict(x) == IF IsKeyPath(x.w) THEN KeyPathVerdict(x)
              ELSE IF ScriptRuns(x) THEN x.sv ELSE "false"        \* sv: the committed script's own verdict

TraceLog == JsonDeserialize(IOEnv.TRACE_FILE)
Init == IF Family = "trace" THEN c \in {[w |-> "t", i |-> i] : i \in 1..Len(TraceLog)} ELSE c \in Cases(0)
Next == UNCHANGED c
Spec == Init /\ [][Next]_c

\* ---- laws -----------------------------------------------------------------------------------------
NotT == c.w # "t"
\* the root binds key and script: different pairs give different roots
RootBinds == NotT => \A k2 \in {1, 2}, s2 \in {1, 2} : (Root(k2, s2) = Root(c.k, c.s)) <=> (k2 = c.k /\ s2 = c.s)
KeyPathExact == NotT /\ IsKeyPath(c.w) => ((Verdict(c) = "true") <=> (c.w = "keyspend" /\ c.fl # "nonperm"))
ScriptPathExact == NotT /\ ~IsKeyPath(c.w) => (ScriptRuns(c) <=> c.w = "scriptspend")
BuildersUnlock == NotT /\ c.w \in {"keyspend", "scriptspend"} /\ c.fl # "nonperm" /\ c.sv = "true" => Verdict(c) = "true"

Out == [k |-> c.k, s |-> c.s, w |-> c.w, fl |-> c.fl, sv |-> c.sv, lock |-> c.lock,
        expect |-> <<Verdict(c), IF ScriptRuns(c) THEN "runs" ELSE "noexec">>]
EmitCase == ~NotT \/ ~Emit \/ PrintT(ToJson(Out))

\* trace cases: [w, fl, sv, lock, got = <<verdict, runs/noexec>>] with k = s = 1
\*              [w |-> "eq", got = <<native verdict, non-native verdict>>]: the two locks agree on any witness
TraceCheck == NotT \/ LET t == TraceLog[c.i] x == [k |-> 1, s |-> 1, w |-> t.w, fl |-> t.fl, sv |-> t.sv, lock |-> t.lock] IN
                     PrintT(ToJson([i |-> c.i, v |-> IF t.w = "eq" THEN (IF t.got[1] = t.got[2] THEN "ok" ELSE "native-vs-nonnative")
                                                     ELSE IF t.got = <<IF Verdict(x) = "true" THEN "true" ELSE "false", IF ScriptRuns(x) THEN "runs" ELSE "noexec">>
                                                          THEN "ok" ELSE "verdict"]))
=============================================================================
