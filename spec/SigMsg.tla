------------------------------- MODULE SigMsg -------------------------------
(***************************************************************************)
(* Signature instructions verify exactly the flag-selected message (C02). *)
(*                                                                         *)
(* A case describes one use of a signature: the sigfields present (and    *)
(* their contents) when the signature was made and when it is checked,    *)
(* the flag used for signing (flagS) and the flag byte carried by the     *)
(* signature at the check (flagC), the checker's allowed-flags operand,   *)
(* who signed / whose key is used, tampering, and item lengths.           *)
(* Signatures are ideal: a check succeeds iff the key is the signer's,    *)
(* the signature bytes are untouched and the signed message equals the    *)
(* message selected at the check.                                          *)
(***************************************************************************)
EXTENDS SigMsgCore, Json, IOUtils, TLC, FiniteSets

CONSTANTS Family, Emit
VARIABLE c

\* contents used by the enumerated families: different splits can concatenate equally
C0(i) == IF i % 2 = 1 THEN <<1>> ELSE <<1, 1>>
C1(i) == C0(i) \o <<2>>                         \* the field after it was changed

SetOf(bits) == {i \in 1..8 : bits[i] = 1}
F0(k) == [i \in SetOf(k.pres0) |-> C0(i)]
F1(k) == [i \in SetOf(k.pres1) |-> IF k.changed[i] = 1 THEN C1(i) ELSE C0(i)]

\* ---- the verdicts ------------------------------------------------------------------
Valid(k, msgS, msgC) == k.signer = k.checker /\ k.tamper = "none" /\ msgS = msgC

CheckSig(k, msgS, msgC) ==
    IF k.klen # 32 \/ k.slen \notin {64, 65} THEN "error"
    ELSE IF ~FlagPermitted(k.flagC, k.allowed) THEN "error"
    ELSE IF Valid(k, msgS, msgC) THEN "true" ELSE "false"
Verified(v) == CASE v = "true" -> "ok" [] v = "false" -> "error" [] OTHER -> v     \* _VERIFY forms
CheckSigStack(k, msgSame) ==
    IF k.klen # 32 \/ k.slen # 64 THEN "error"
    ELSE IF k.signer = k.checker /\ k.tamper = "none" /\ msgSame THEN "true" ELSE "false"

\* the message is built on the stack: it is subject to the item-size limit like any other item
MaxItem == 1024
Expect(k, f0, f1) ==
    LET msgS == Message(f0, k.flagS) msgC == Message(f1, k.flagC) IN
    IF k.instr # "CSS" /\ Len(msgC) > MaxItem THEN "error" ELSE
    CASE k.instr = "CS"  -> CheckSig(k, msgS, msgC)
      [] k.instr = "CSV" -> Verified(CheckSig(k, msgS, msgC))
      [] k.instr = "CSS" -> CheckSigStack(k, k.flagS = k.flagC)     \* (flags stand for "same message" here)
      [] k.instr = "MSG" -> "msg"
      [] k.instr = "SIGN" -> IF k.klen # 32 THEN "error" ELSE "signed"
      [] k.instr = "SIGNSTACK" -> IF k.klen # 32 THEN "error" ELSE "signed"

\* ---- families ---------------------------------------------------------------------------
All8 == [i \in 1..8 |-> 1]
None8 == [i \in 1..8 |-> 0]
Bits(S) == [i \in 1..8 |-> IF i \in S THEN 1 ELSE 0]
BitsOfByte(b) == [i \in 1..8 |-> IF Bit(b, i - 1) THEN 1 ELSE 0]
Base == [instr |-> "CS", pres0 |-> All8, pres1 |-> All8, changed |-> None8, flagS |-> 0, flagC |-> 0, allowed |-> 0,
         signer |-> 1, checker |-> 1, tamper |-> "none", klen |-> 32, slen |-> 64]
SLen(f) == IF f = 0 THEN 64 ELSE 65

Cases(z) ==
    CASE Family = "perm" ->
           { [Base EXCEPT !.instr = i, !.flagS = f, !.flagC = f, !.allowed = a, !.slen = SLen(f)] : f \in 0..255, a \in 0..255, i \in {"CS"} }
      [] Family = "permv" ->
           { [Base EXCEPT !.instr = "CSV", !.flagS = f, !.flagC = f, !.allowed = a, !.slen = SLen(f)] : f \in {0, 1, 2, 129, 255}, a \in 0..255 }
      [] Family = "select" ->
           { [Base EXCEPT !.instr = i, !.pres0 = BitsOfByte(p), !.pres1 = BitsOfByte(p), !.flagS = f, !.flagC = f, !.allowed = 255, !.slen = SLen(f)] :
               p \in 0..255, f \in 0..255, i \in {"MSG", "SIGN", "CS"} }
      [] Family = "selectq" ->
           { [Base EXCEPT !.instr = i, !.pres0 = BitsOfByte(p), !.pres1 = BitsOfByte(p), !.flagS = f, !.flagC = f, !.allowed = 255, !.slen = SLen(f)] :
               p \in 0..255, f \in {0, 1, 3, 85, 128, 170, 254, 255}, i \in {"MSG", "SIGN", "CS"} }
      [] Family = "corrupt" ->
           { [Base EXCEPT !.instr = i, !.pres0 = p0, !.pres1 = Bits(SetOf(p0) \cup add), !.changed = Bits(ch), !.flagS = fs, !.flagC = fc,
                          !.allowed = 255, !.signer = s, !.checker = k, !.tamper = t, !.slen = SLen(fc)] :
               i \in {"CS", "CSV"}, p0 \in {All8, None8, Bits({1, 3, 5}), Bits({2})}, add \in {{}} \cup {{x} : x \in {1, 2, 8}},
               ch \in {{}} \cup {{x} : x \in 1..8}, fs \in {0, 1, 5, 128, 255}, fc \in {0, 1, 5, 128, 255},
               s \in {1, 2}, k \in {1}, t \in {"none", "sigR", "sigS", "key"} }
      [] Family = "lengths" ->
           { [Base EXCEPT !.instr = i, !.klen = kl, !.slen = sl, !.flagC = IF sl = 65 THEN 1 ELSE 0, !.flagS = IF sl = 65 THEN 1 ELSE 0, !.allowed = a] :
               i \in {"CS", "CSV", "CSS", "SIGN", "SIGNSTACK"}, kl \in {0, 31, 32, 33, 64}, sl \in {0, 32, 63, 64, 65, 66, 70}, a \in {0, 1, 255} }
      [] Family = "css" ->
           { [Base EXCEPT !.instr = "CSS", !.flagS = ms, !.flagC = mc, !.signer = s, !.tamper = t] :
               ms \in {0, 1}, mc \in {0, 1}, s \in {1, 2}, t \in {"none", "sigR", "sigS", "key"} }
      [] Family = "trace" -> {}

TraceLog == JsonDeserialize(IOEnv.TRACE_FILE)
Init == IF Family = "trace" THEN c \in {[instr |-> "t", i |-> i] : i \in 1..Len(TraceLog)} ELSE c \in Cases(0)
Next == UNCHANGED c
Spec == Init /\ [][Next]_c

\* ---- laws (checked by TLC on every enumerated case) ------------------------------------------
IsCheck(k) == k.instr \in {"CS", "CSV"}
Honest(k) == k.signer = k.checker /\ k.tamper = "none" /\ k.klen = 32 /\ k.slen = SLen(k.flagC)
\* sign-then-check succeeds for every flag value the checker allows
SignThenCheck == (c.instr # "t" /\ IsCheck(c) /\ Honest(c) /\ c.pres0 = c.pres1 /\ c.changed = None8 /\ c.flagS = c.flagC
                  /\ FlagPermitted(c.flagC, c.allowed)) => Expect(c, F0(c), F1(c)) \in {"true", "ok"}
\* a change to a field that is present and covered makes the check fail
CoveredChangeFails == (c.instr # "t" /\ IsCheck(c) /\ c.flagS = c.flagC
                       /\ \E i \in 1..8 : c.changed[i] = 1 /\ c.pres0[i] = 1 /\ c.pres1[i] = 1 /\ ~Bit(c.flagC, i - 1))
                      => Expect(c, F0(c), F1(c)) \notin {"true", "ok"}
\* changes to excluded (or absent) fields are irrelevant
ExcludedChangeIrrelevant == (c.instr # "t" /\ IsCheck(c) /\ Honest(c) /\ c.flagS = c.flagC /\ FlagPermitted(c.flagC, c.allowed)
                             /\ \A i \in 1..8 : (c.changed[i] = 1 \/ c.pres0[i] # c.pres1[i]) => Bit(c.flagC, i - 1))
                            => Expect(c, F0(c), F1(c)) \in {"true", "ok"}
\* a non-permitted flag bit or a malformed key / signature is an error, never true
NeverTrueWhenMalformed == (c.instr # "t" /\ IsCheck(c) /\ (~FlagPermitted(c.flagC, c.allowed) \/ c.klen # 32 \/ c.slen \notin {64, 65}))
                          => Expect(c, F0(c), F1(c)) = "error"
\* the covered set is exactly the present fields whose bit is clear
CoveredExact == c.instr = "t" \/ Len(Message(F1(c), c.flagC)) =
                   LET S == Covered(SetOf(c.pres1), c.flagC)
                       RECURSIVE Sum(_) Sum(T) == IF T = {} THEN 0 ELSE LET x == CHOOSE y \in T : TRUE IN Len(F1(c)[x]) + Sum(T \ {x})
                   IN Sum(S)

Out == [instr |-> c.instr, pres0 |-> c.pres0, pres1 |-> c.pres1, changed |-> c.changed, flagS |-> c.flagS, flagC |-> c.flagC,
        allowed |-> c.allowed, signer |-> c.signer, checker |-> c.checker, tamper |-> c.tamper, klen |-> c.klen, slen |-> c.slen,
        expect |-> Expect(c, F0(c), F1(c)), msgS |-> Message(F0(c), c.flagS), msgC |-> Message(F1(c), c.flagC)]
EmitCase == c.instr = "t" \/ ~Emit \/ PrintT(ToJson(Out))

\* ---- trace cases: the same record with explicit field contents f0 / f1 = << <<i, bytes>>, ... >> and `got`;
\*      for MSG / SIGN the implementation's message bytes `gotmsg` ---------------------------------------
FnOfPairs(ps) == [i \in {ps[j][1] : j \in 1..Len(ps)} |-> ps[CHOOSE j \in 1..Len(ps) : ps[j][1] = i][2]]
TraceVerdict(t) ==
    LET f0 == FnOfPairs(t.f0) f1 == FnOfPairs(t.f1)
        e == Expect(t, f0, f1)
    IN IF e # t.got THEN "verdict"
       ELSE IF t.instr \in {"MSG", "SIGN"} /\ t.got \in {"msg", "signed"} /\ t.gotmsg # Message(f1, t.flagC) THEN "message"
       ELSE "ok"
TraceCheck == c.instr # "t" \/ PrintT(ToJson([i |-> c.i, v |-> TraceVerdict(TraceLog[c.i])]))
=============================================================================
