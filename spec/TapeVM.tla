------------------------------- MODULE TapeVM -------------------------------
(***************************************************************************)
(* Small-step specification of the tapescript virtual machine.            *)
(*                                                                         *)
(* The whole machine state is one record `vm` (so that the same step      *)
(* function serves exhaustive model checking, simulation and trace        *)
(* validation); `Step(vm, h)` is the transition function.  One step is    *)
(* one linearization point of the implementation:                          *)
(*   Exec    - one instruction of the running tape that does not start a  *)
(*             sub-tape, or the part of a block instruction up to the      *)
(*             moment its sub-tape starts running (run_tape is entered);   *)
(*   Leave   - a tape ran to its end: return into the instruction that     *)
(*             started it (IF / IF_ELSE / TRY_EXCEPT / LOOP / CALL / EVAL /*)
(*             MERKLEVAL / TAPROOT) and finish that instruction, or start  *)
(*             the next authorization script, or finish the run;           *)
(*   Unwind  - an exception propagates to the nearest TRY (enter EXCEPT    *)
(*             body) or out of the run.                                    *)
(* `h` is a hint record: the values the specification does not determine  *)
(* (OP_RANDOM output, results of named primitives such as SHA-256 or      *)
(* Ed25519 operations, contract / plugin answers, exception text).  In    *)
(* model-checking mode hints are empty and the explored alphabets do not  *)
(* need them; in trace validation they come from the log and every        *)
(* primitive result is keyed by its arguments, which the spec computes.   *)
(***************************************************************************)
EXTENDS BigInt, SigMsgCore, FiniteSets, TLC

----------------------------------------------------------------------------
\* Flag tables.  Keys are records so that integer, string and byte-string
\* keys are comparable in TLC; values are integers (True = 1, False = 0).
FInt(n) == [t |-> "i", s |-> "", b |-> <<n>>]
FStr(s) == [t |-> "s", s |-> s, b |-> <<>>]
FByt(b) == [t |-> "b", s |-> "", b |-> b]

StdDefaults == [k \in {FStr("ts_threshold"), FStr("epoch_threshold")} \cup {FInt(i) : i \in 0..10}
                  |-> IF k.t = "s" THEN 60 ELSE 1]

Overlay(f, g) == [k \in DOMAIN f \cup DOMAIN g |-> IF k \in DOMAIN g THEN g[k] ELSE f[k]]
StrIntKeys(g) == [k \in {x \in DOMAIN g : x.t # "b"} |-> g[k]]
Without(f, k) == [x \in DOMAIN f \ {k} |-> f[x]]
EmptyFn == [x \in {} |-> 0]

\* run_tape -> set_tape_flags(tape, additional): defaults are (re)applied, then
\* the str/int keys of `additional` (a snapshot taken before anything is written)
SetTapeFlags(cur, defaults, toset, add) ==
    LET d == StrIntKeys(defaults)
        eff == [k \in DOMAIN d |-> IF k \in toset THEN d[k] ELSE 0]
    IN Overlay(Overlay(cur, eff), StrIntKeys(add))

FlagOn(tbl, k) == k \in DOMAIN tbl /\ tbl[k] # 0

----------------------------------------------------------------------------
\* String-keyed (embedder-owned) cache: a sequence of entries
\*   [k |-> utf-8 bytes of the key, t |-> "bytes"|"str"|"int"|"float"|"other",
\*    v |-> bytes (for int: the magnitude), neg |-> BOOLEAN]
ScIdx(sc, key) == {i \in 1..Len(sc) : sc[i].k = key}
ScHas(sc, key) == ScIdx(sc, key) # {}
ScGet(sc, key) == sc[CHOOSE i \in ScIdx(sc, key) : TRUE]

KSigfield(i) == <<115, 105, 103, 102, 105, 101, 108, 100, 48 + i>>     \* "sigfield<i>"
KTimestamp  == <<116, 105, 109, 101, 115, 116, 97, 109, 112>>          \* "timestamp"
KReturned   == <<114, 101, 116, 117, 114, 110, 101, 100>>              \* "returned"

SigFields(sc) == [i \in {j \in 1..8 : ScHas(sc, KSigfield(j))} |-> ScGet(sc, KSigfield(i)).v]   \* bytes or bytearray

----------------------------------------------------------------------------
\* Hints
\*  rand   output of OP_RANDOM                  prim   results of named primitives
\*  top    the implementation's top stack item after the step (only used to accept a
\*         non-minimal but valid integer encoding)   pushed  items the step left on top
\*  etext  serialised error text                   ct     check_template plugin answers
NoHint == [rand |-> <<>>, prim |-> <<>>, pushed |-> <<>>, top |-> <<>>, etext |-> <<>>, abi |-> <<>>,
           ct |-> <<>>, adopt |-> FALSE]

PrimIdx(h, name, args) == {i \in 1..Len(h.prim) : h.prim[i].n = name /\ h.prim[i].a = args}
PrimHas(h, name, args) == PrimIdx(h, name, args) # {}
PrimGet(h, name, args) == h.prim[CHOOSE i \in PrimIdx(h, name, args) : TRUE]

----------------------------------------------------------------------------
\* Elementary state transformers.  Each is the identity on a state in which
\* an exception is already propagating, so instruction bodies are written as
\* plain compositions in program order.
Bad(v)  == v.exc # "none"
Raise(v, cls) == IF Bad(v) THEN v ELSE [v EXCEPT !.exc = cls]
SEE == "ScriptExecutionError"

TopF(v) == v.frames[Len(v.frames)]
Tid(v)  == TopF(v).tid
TT(v)   == v.tapes[Tid(v)]
Flags(v) == v.fheap[TT(v).fid]
Defs(v)  == v.dheap[TT(v).did]

Rd(v, n) ==
    IF Bad(v) THEN v
    ELSE LET t == TT(v) IN
         IF t.pc + n > Len(t.code) THEN Raise(v, SEE)
         ELSE [v EXCEPT !.tapes[Tid(v)].pc = t.pc + n,
                        !.r = Append(@, Slice(t.code, t.pc, t.pc + n))]

Pop(v) ==
    IF Bad(v) THEN v
    ELSE IF v.stack = <<>> THEN Raise(v, "IndexError")
    ELSE [v EXCEPT !.stack = SubSeq(@, 1, Len(@) - 1), !.p = Append(@, v.stack[Len(v.stack)])]

RECURSIVE PopN(_, _)
PopN(v, n) == IF n <= 0 \/ Bad(v) THEN v ELSE PopN(Pop(v), n - 1)

\* Stack.put: item size first, then item count
Put(v, item) ==
    IF Bad(v) THEN v
    ELSE IF Len(item) > v.cfg.maxItemSize THEN Raise(v, SEE)
    ELSE IF Len(v.stack) >= v.cfg.maxItems THEN Raise(v, SEE)
    ELSE [v EXCEPT !.stack = Append(@, item)]

RECURSIVE PutAll(_, _)
PutAll(v, items) == IF items = <<>> \/ Bad(v) THEN v ELSE PutAll(Put(v, Head(items)), Tail(items))

\* stack.put(x); stack.get() as done by internal calls: only the checks remain
PutGet(v, item) ==
    IF Bad(v) THEN v
    ELSE IF Len(item) > v.cfg.maxItemSize THEN Raise(v, SEE)
    ELSE IF Len(v.stack) >= v.cfg.maxItems THEN Raise(v, SEE)
    ELSE v

\* pop an item that is going to be decoded as a signed integer
PopInt(v) == LET a == Pop(v) IN
             IF Bad(a) THEN a
             ELSE IF a.p[Len(a.p)] = <<>> THEN Raise(a, "ValueError") ELSE a
RECURSIVE PopIntN(_, _)
PopIntN(v, n) == IF n <= 0 \/ Bad(v) THEN v ELSE PopIntN(PopInt(v), n - 1)

SetPc(v, pc) == [v EXCEPT !.tapes[Tid(v)].pc = pc]

CacheList(v, key, items) == IF Bad(v) THEN v ELSE
    [v EXCEPT !.bc = [k \in DOMAIN v.bc \cup {key} |-> IF k = key THEN [l |-> TRUE, v |-> items] ELSE v.bc[k]]]
CacheScalar(v, key, item) == IF Bad(v) THEN v ELSE
    [v EXCEPT !.bc = [k \in DOMAIN v.bc \cup {key} |-> IF k = key THEN [l |-> FALSE, v |-> <<item>>] ELSE v.bc[k]]]
CacheIf(v, flagno, key, item) == IF Bad(v) \/ ~FlagOn(Flags(v), FInt(flagno)) THEN v ELSE CacheScalar(v, key, item)

\* an integer result: the minimal encoding, or - when the log shows another
\* valid encoding of the same value in that position - that one
IntOut(h, x) == IF h.top # <<>> /\ ValidEnc(h.top, x) THEN h.top ELSE EncS(x)
PutInt(v, h, x) == IF Bad(v) THEN v ELSE Put(v, IntOut(h, x))

\* result of a named primitive: r = list of byte strings, e = exception class or ""
WithPrim(v, h, name, args, K(_, _)) ==
    IF Bad(v) THEN v
    ELSE IF ~PrimHas(h, name, args) THEN Raise(v, "PRIMMISS")
    ELSE LET pr == PrimGet(h, name, args) IN
         IF pr.e # "" THEN Raise(v, pr.e) ELSE K(v, pr.r)

RunSigExt(v) == IF Bad(v) \/ ~TT(v).plug THEN v ELSE [v EXCEPT !.obs.plug = @ + v.cfg.nsig]

----------------------------------------------------------------------------
\* Multiplication of operands up to 64 bytes together and small division natively (BigInt), the rest through a primitive.
FloorDiv(a, b) == IF b > 0 THEN a \div b ELSE (-a) \div (-b)
PyMod(a, b) == a - b * FloorDiv(a, b)

Arith2(v, h, name, x, y, K(_, _)) == \* x, y BigInt; K(state, BigInt result)
    IF Bad(v) THEN v
    ELSE IF name \in {"div", "mod"} /\ IsZero(y) THEN Raise(v, "ZeroDivisionError")
    ELSE IF name = "mul" /\ Len(x.mag) + Len(y.mag) <= 64 THEN K(v, Mul(x, y))          \* schoolbook on limbs
    ELSE IF name = "div" /\ IsSmall(x) /\ IsSmall(y) THEN K(v, FromInt(FloorDiv(ToInt(x), ToInt(y))))
    ELSE IF name = "mod" /\ IsSmall(x) /\ IsSmall(y) THEN K(v, FromInt(PyMod(ToInt(x), ToInt(y))))
    ELSE WithPrim(v, h, name, <<EncS(x), EncS(y)>>, LAMBDA a, r : K(a, DecS(r[1])))

RECURSIVE SumInts(_)
SumInts(items) == IF items = <<>> THEN Zero ELSE Add(DecS(Head(items)), SumInts(Tail(items)))
RECURSIVE SubInts(_, _)
SubInts(acc, items) == IF items = <<>> THEN acc ELSE SubInts(Sub(acc, DecS(Head(items))), Tail(items))

RECURSIVE MulFold(_, _, _, _)
MulFold(v, h, acc, items) == \* result left in scratch register x
    IF Bad(v) THEN v
    ELSE IF items = <<>> THEN [v EXCEPT !.x = acc]
    ELSE LET a == Arith2(v, h, "mul", acc, DecS(Head(items)), LAMBDA s, x : [s EXCEPT !.x = x])
         IN IF Bad(a) THEN a ELSE MulFold(a, h, a.x, Tail(items))

----------------------------------------------------------------------------
\* Sub-tapes.  NewTape allocates a Tape object; Enter starts run_tape on it.
NewTape(v, code, cnt, fid, did, plug) ==
    [v EXCEPT !.tapes = Append(@, [code |-> code, pc |-> 0, cnt |-> cnt, fid |-> fid,
                                   did |-> did, plug |-> plug, contr |-> TRUE])]
LastTid(v) == Len(v.tapes)
NewFlags(v, tbl) == [v EXCEPT !.fheap = Append(@, tbl)]
NewDefs(v, tbl)  == [v EXCEPT !.dheap = Append(@, tbl)]

Frame(tid, kind, saved, xbody, iter) ==
    [tid |-> tid, kind |-> kind, saved |-> saved, xbody |-> xbody, iter |-> iter]

\* run_tape(tape, additional_flags = add): flags (re)initialised, frame pushed
Enter(v, tid, kind, add, saved, xbody, iter) ==
    LET fid == v.tapes[tid].fid
        w == [v EXCEPT !.fheap[fid] = SetTapeFlags(@, v.cfg.defaults, v.cfg.toset, add)]
    IN [w EXCEPT !.frames = Append(@, Frame(tid, kind, saved, xbody, iter)),
                 !.r = <<>>, !.p = <<>>]

\* sub-tape of IF / IF_ELSE / TRY / EXCEPT: fresh flag table, copied definitions,
\* same call count, the run's plugins and contracts
EnterBlock(v, code, kind, xbody) ==
    LET par == TT(v)
        a == NewDefs(NewFlags(v, EmptyFn), Defs(v))
        b == NewTape(a, code, par.cnt, Len(a.fheap), Len(a.dheap), par.plug)
    IN Enter(b, LastTid(b), kind, Flags(v), 0, xbody, 0)

\* OP_EVAL proper (after the script has been popped into `script`)
EvalScript(v, script) ==
    IF Bad(v) THEN v
    ELSE IF script = <<>> THEN Raise(v, "ValueError")
    ELSE LET par == TT(v)
             a == NewDefs(NewFlags(v, Flags(v)), Defs(v))
             b == NewTape(a, script, par.cnt + 1, Len(a.fheap), Len(a.dheap), par.plug)
         IN Enter(b, LastTid(b), "eval", Flags(v), 0, <<>>, 0)

EvalGuards(v) ==
    IF Bad(v) THEN v
    ELSE IF FStr("disallow_OP_EVAL") \in DOMAIN Flags(v) THEN Raise(v, SEE)
    ELSE IF ~(TT(v).cnt < v.cfg.callLimit) THEN Raise(v, SEE)
    ELSE v

OpEval(v) == LET a == Pop(EvalGuards(v)) IN IF Bad(a) THEN a ELSE EvalScript(a, a.p[Len(a.p)])

\* OP_RETURN on the running tape
DoReturn(v) == IF Bad(v) THEN v ELSE [SetPc(v, Len(TT(v).code)) EXCEPT !.ret = TRUE]

----------------------------------------------------------------------------
\* Signature checking core shared by CHECK_SIG, CHECK_MULTISIG and TAPROOT:
\* K(state, BOOLEAN) continues with the verdict.
CheckSigCore(v, h, allowed, vkey, sig, K(_, _)) ==
    IF Bad(v) THEN v
    ELSE IF Len(vkey) # 32 THEN Raise(v, "ValueError")
    ELSE IF Len(sig) \notin {64, 65} THEN Raise(v, "ValueError")
    ELSE IF ~FlagPermitted(SigFlag(sig), allowed) THEN Raise(v, SEE)
    ELSE LET msg == Message(SigFields(v.cfg.sc), SigFlag(sig))
             a == PutGet(v, msg)
         IN WithPrim(a, h, "verify", <<vkey, msg, SigBody(sig)>>,
                     LAMBDA b, r : K(b, r[1] = True1))

DoVerify(v) == LET a == Pop(v) IN
               IF Bad(a) THEN a ELSE IF Truthy(a.p[Len(a.p)]) THEN a ELSE Raise(a, SEE)

\* greedy matcher of OP_CHECK_MULTISIG: for each signature in turn, try the
\* remaining keys in order; a match removes the key.  conf = set of confirmed
\* signature byte strings.
DelAt(s, i) == SubSeq(s, 1, i - 1) \o SubSeq(s, i + 1, Len(s))
RECURSIVE MsigKey(_, _, _, _, _, _)
MsigKey(v, h, allowed, sig, keys, i) == \* x := index of the first remaining key that verifies, or 0
    IF Bad(v) THEN v
    ELSE IF i > Len(keys) THEN [v EXCEPT !.x = 0]
    ELSE LET a == CheckSigCore(v, h, allowed, keys[i], sig,
                               LAMBDA s, ok : [s EXCEPT !.x = IF ok THEN i ELSE -1])
         IN IF Bad(a) THEN a ELSE IF a.x = i THEN a ELSE MsigKey(a, h, allowed, sig, keys, i + 1)
RECURSIVE MsigSigs(_, _, _, _, _, _)
MsigSigs(v, h, allowed, sigs, keys, conf) == \* x := set of confirmed signatures
    IF Bad(v) THEN v
    ELSE IF sigs = <<>> THEN [v EXCEPT !.x = conf]
    ELSE LET a == MsigKey(v, h, allowed, Head(sigs), keys, 1) IN
         IF Bad(a) THEN a
         ELSE IF a.x = 0 THEN MsigSigs(a, h, allowed, Tail(sigs), keys, conf)
         ELSE MsigSigs(a, h, allowed, Tail(sigs), DelAt(keys, a.x), conf \cup {Head(sigs)})

----------------------------------------------------------------------------
\* Stack permutations with explicit operands (also used by MERKLEVAL)
DoSwap(v, i, j) ==
    IF Bad(v) \/ i = j THEN v
    ELSE IF ~(Len(v.stack) > MaxI(i, j)) THEN Raise(v, SEE)
    ELSE LET n == Len(v.stack) a == n - i b == n - j IN
         [v EXCEPT !.stack = [k \in 1..n |-> IF k = a THEN v.stack[b] ELSE IF k = b THEN v.stack[a] ELSE v.stack[k]]]

DoDup(v) == LET a == Pop(v) IN IF Bad(a) THEN a ELSE Put(Put(a, a.p[Len(a.p)]), a.p[Len(a.p)])
DoSwap2(v) == LET a == PopN(v, 2) IN IF Bad(a) THEN a
              ELSE Put(Put(a, a.p[Len(a.p) - 1]), a.p[Len(a.p)])
DoSha(v, h) == LET a == Pop(v) IN
               WithPrim(a, h, "sha256", <<a.p[Len(a.p)]>>, LAMBDA b, r : Put(b, r[1]))
DoXor(v) == LET a == PopN(v, 2) IN IF Bad(a) THEN a ELSE Put(a, XorB(a.p[Len(a.p) - 1], a.p[Len(a.p)]))
DoEqual(v) == LET a == PopN(v, 2) IN IF Bad(a) THEN a ELSE Put(a, Bool(a.p[Len(a.p) - 1] = a.p[Len(a.p)]))

----------------------------------------------------------------------------
\* CLAMP_SCALAR natively
Clamp(x, isKey) ==
    LET b == Take(x, 32)
        b1 == IF isKey THEN [b EXCEPT ![1] = @ & 248, ![32] = @ | 64] ELSE b
    IN [b1 EXCEPT ![32] = @ & 127]

----------------------------------------------------------------------------
\* UTF-8 validity (Python's strict decoder): state machine over the bytes
RECURSIVE Utf8From(_, _)
Utf8From(b, i) == \* TRUE iff b[i..] is valid UTF-8
    IF i > Len(b) THEN TRUE
    ELSE LET c == b[i]
             Cont(j) == j <= Len(b) /\ b[j] >= 128 /\ b[j] <= 191
         IN IF c <= 127 THEN Utf8From(b, i + 1)
            ELSE IF c >= 194 /\ c <= 223 THEN Cont(i + 1) /\ Utf8From(b, i + 2)
            ELSE IF c = 224 THEN i + 1 <= Len(b) /\ b[i + 1] >= 160 /\ b[i + 1] <= 191 /\ Cont(i + 2) /\ Utf8From(b, i + 3)
            ELSE IF (c >= 225 /\ c <= 236) \/ c = 238 \/ c = 239 THEN Cont(i + 1) /\ Cont(i + 2) /\ Utf8From(b, i + 3)
            ELSE IF c = 237 THEN i + 1 <= Len(b) /\ b[i + 1] >= 128 /\ b[i + 1] <= 159 /\ Cont(i + 2) /\ Utf8From(b, i + 3)
            ELSE IF c = 240 THEN i + 1 <= Len(b) /\ b[i + 1] >= 144 /\ b[i + 1] <= 191 /\ Cont(i + 2) /\ Cont(i + 3) /\ Utf8From(b, i + 4)
            ELSE IF c >= 241 /\ c <= 243 THEN Cont(i + 1) /\ Cont(i + 2) /\ Cont(i + 3) /\ Utf8From(b, i + 4)
            ELSE IF c = 244 THEN i + 1 <= Len(b) /\ b[i + 1] >= 128 /\ b[i + 1] <= 143 /\ Cont(i + 2) /\ Cont(i + 3) /\ Utf8From(b, i + 4)
            ELSE FALSE
Utf8Valid(b) == Utf8From(b, 1)
\* number of code points / byte offset of code point number n (0-based) in valid UTF-8
IsLead(x) == x < 128 \/ x >= 192
Utf8Len(b) == Cardinality({i \in 1..Len(b) : IsLead(b[i])})
Utf8Offset(b, n) == \* number of bytes occupied by the first n code points
    IF n = 0 THEN 0
    ELSE LET starts == {i \in 1..Len(b) : IsLead(b[i])}
             nth == CHOOSE i \in starts : Cardinality({j \in starts : j < i}) = n
         IN nth - 1

----------------------------------------------------------------------------
\* The instructions.  Op(v, h): state after the instruction body, given that
\* the opcode byte has been read.  r[i] = i-th operand read, p[i] = i-th item
\* popped (p[1] was the top of the stack).
LastOf(s) == s[Len(s)]

OpPush0(v) == LET a == Rd(v, 1) IN IF Bad(a) THEN a ELSE Put(a, a.r[1])
OpPush1(v) == LET a == Rd(v, 1) b == IF Bad(a) THEN a ELSE Rd(a, U8(a.r[1])) IN
              IF Bad(b) THEN b ELSE Put(b, b.r[2])
OpPush2(v) == LET a == Rd(v, 2) b == IF Bad(a) THEN a ELSE Rd(a, U16(a.r[1])) IN
              IF Bad(b) THEN b ELSE Put(b, b.r[2])

OpGetMessage(v) == LET a == Rd(RunSigExt(v), 1) IN
                   IF Bad(a) THEN a ELSE Put(a, Message(SigFields(a.cfg.sc), U8(a.r[1])))

OpPop0(v) == LET a == Pop(v) IN IF Bad(a) THEN a ELSE CacheList(a, <<80>>, a.p)
OpPop1(v) == LET a == Rd(v, 1) b == IF Bad(a) THEN a ELSE PopN(a, U8(a.r[1])) IN
             IF Bad(b) THEN b ELSE CacheList(b, <<80>>, b.p)
OpSize(v, h) == LET a == Pop(v) IN IF Bad(a) THEN a ELSE PutInt(a, h, FromNat(Len(a.p[1])))

RdKey(v) == LET a == Rd(v, 1) IN IF Bad(a) THEN a ELSE Rd(a, U8(a.r[1]))   \* key = r[2]

OpWriteCache(v) ==
    LET a == Rd(RdKey(v), 1)
        b == IF Bad(a) THEN a ELSE PopN(a, U8(a.r[3]))
    IN IF Bad(b) THEN b ELSE CacheList(b, b.r[2], b.p)

ReadKey(v, key) ==
    IF Bad(v) THEN v
    ELSE IF key \notin DOMAIN v.bc THEN Raise(v, SEE)
    ELSE PutAll(v, v.bc[key].v)
CountKey(v, h, key) ==
    IF Bad(v) THEN v
    ELSE IF key \notin DOMAIN v.bc THEN PutInt(v, h, Zero)
    ELSE PutInt(v, h, FromNat(Len(v.bc[key].v)))

OpReadCache(v) == LET a == RdKey(v) IN IF Bad(a) THEN a ELSE ReadKey(a, a.r[2])
OpReadCacheSize(v, h) == LET a == RdKey(v) IN IF Bad(a) THEN a ELSE CountKey(a, h, a.r[2])
OpReadCacheStack(v) == LET a == Pop(v) IN IF Bad(a) THEN a ELSE ReadKey(a, a.p[1])
OpReadCacheStackSize(v, h) == LET a == Pop(v) IN IF Bad(a) THEN a ELSE CountKey(a, h, a.p[1])

OpAddInts(v, h) == LET a == Rd(v, 1) b == IF Bad(a) THEN a ELSE PopIntN(a, U8(a.r[1])) IN
                   IF Bad(b) THEN b ELSE PutInt(b, h, SumInts(b.p))
OpSubInts(v, h) == LET a == Rd(v, 1) b == IF Bad(a) THEN a ELSE PopIntN(a, MaxI(U8(a.r[1]), 1)) IN
                   IF Bad(b) THEN b ELSE PutInt(b, h, SubInts(DecS(b.p[1]), Tail(b.p)))
OpMultInts(v, h) == LET a == Rd(v, 1) b == IF Bad(a) THEN a ELSE PopIntN(a, MaxI(U8(a.r[1]), 1)) IN
                    IF Bad(b) THEN b
                    ELSE LET c == MulFold(b, h, DecS(b.p[1]), Tail(b.p)) IN
                         IF Bad(c) THEN c ELSE PutInt(c, h, c.x)

\* DIV_INT / MOD_INT: divisor operand on the tape (decoded before the pop)
OpDivModInt(v, h, name) ==
    LET a == RdKey(v)
        b == IF Bad(a) THEN a ELSE IF a.r[2] = <<>> THEN Raise(a, "ValueError") ELSE PopInt(a)
    IN IF Bad(b) THEN b
       ELSE Arith2(b, h, name, DecS(b.p[1]), DecS(b.r[2]), LAMBDA c, x : PutInt(c, h, x))
\* DIV_INTS / MOD_INTS: top (dividend) by second (divisor)
OpDivModInts(v, h, name) ==
    LET b == PopIntN(v, 2)
    IN IF Bad(b) THEN b
       ELSE Arith2(b, h, name, DecS(b.p[1]), DecS(b.p[2]), LAMBDA c, x : PutInt(c, h, x))

\* float items must be 4 bytes: checked as each item is popped
PopF(v, cls) == LET a == Pop(v) IN IF Bad(a) THEN a
                ELSE IF Len(LastOf(a.p)) # 4 THEN Raise(a, cls) ELSE a
RECURSIVE PopFN(_, _, _)
PopFN(v, n, cls) == IF n <= 0 \/ Bad(v) THEN v ELSE PopFN(PopF(v, cls), n - 1, cls)

OpAddFloats(v, h) == LET a == Rd(v, 1) b == IF Bad(a) THEN a ELSE PopFN(a, U8(a.r[1]), "TypeError") IN
                     WithPrim(b, h, "addf", b.p, LAMBDA c, r : Put(c, r[1]))
OpSubFloats(v, h) == LET a == Rd(v, 1) b == IF Bad(a) THEN a ELSE PopFN(a, MaxI(U8(a.r[1]), 1), "TypeError") IN
                     WithPrim(b, h, "subf", b.p, LAMBDA c, r : Put(c, r[1]))
\* DIV_FLOAT / MOD_FLOAT: divisor from the tape; args <<dividend, divisor>>
OpDivModFloat(v, h, name) ==
    LET a == Rd(v, 4) b == PopF(a, "TypeError") IN
    WithPrim(b, h, name, <<b.p[1], b.r[1]>>, LAMBDA c, r : Put(c, r[1]))
\* DIV_FLOATS: top / second   (as pinned by the unit tests)
OpDivFloats(v, h) ==
    LET b == PopFN(v, 2, "TypeError") IN
    WithPrim(b, h, "divf", <<b.p[1], b.p[2]>>, LAMBDA c, r : Put(c, r[1]))
\* MOD_FLOATS: second % top
OpModFloats(v, h) ==
    LET b == PopFN(v, 2, "TypeError") IN
    WithPrim(b, h, "modf", <<b.p[2], b.p[1]>>, LAMBDA c, r : Put(c, r[1]))

OpAddPoints(v, h) == LET a == Rd(v, 1) b == IF Bad(a) THEN a ELSE PopN(a, U8(a.r[1])) IN
                     WithPrim(b, h, "addpts", b.p, LAMBDA c, r : Put(c, r[1]))

RECURSIVE PutTimes(_, _, _)
PutTimes(v, item, n) == IF n <= 0 \/ Bad(v) THEN v ELSE PutTimes(Put(v, item), item, n - 1)
OpCopy(v) == LET a == Pop(Rd(v, 1)) IN IF Bad(a) THEN a ELSE PutTimes(a, a.p[1], U8(a.r[1]) + 1)

OpShake(v, h) == LET a == Pop(Rd(v, 1)) IN
                 WithPrim(a, h, "shake256", <<a.p[1], a.r[1]>>, LAMBDA b, r : Put(b, r[1]))

OpCheckSig(v, h) ==
    LET a == PopN(Rd(RunSigExt(v), 1), 2) IN
    IF Bad(a) THEN a
    ELSE CheckSigCore(a, h, U8(a.r[1]), a.p[1], a.p[2], LAMBDA b, ok : Put(b, Bool(ok)))

\* constraint decoding and the cache / flag preconditions of the time checks
OpCheckTimestamp(v) ==
    LET a == Pop(v) IN
    IF Bad(a) THEN a
    ELSE IF a.p[1] = <<>> THEN Raise(a, SEE)
    ELSE IF ~ScHas(a.cfg.sc, KTimestamp) THEN Raise(a, SEE)
    ELSE IF ScGet(a.cfg.sc, KTimestamp).t # "int" THEN Raise(a, SEE)
    ELSE IF FStr("ts_threshold") \notin DOMAIN Flags(a) THEN Raise(a, SEE)
    ELSE LET e == ScGet(a.cfg.sc, KTimestamp)
             t == MkInt(e.neg, e.v)
             c == FromU(a.p[1])
             thr == FromInt(Flags(a)[FStr("ts_threshold")])
             now == FromU(a.cfg.now)
             ok == /\ Leq(c, t)
                   /\ (Leq(thr, Zero) \/ Less(Sub(t, now), thr))
         IN Put(a, Bool(ok))
OpCheckEpoch(v) ==
    LET a == Pop(v) IN
    IF Bad(a) THEN a
    ELSE IF a.p[1] = <<>> THEN Raise(a, SEE)
    ELSE IF FStr("epoch_threshold") \notin DOMAIN Flags(a) THEN Raise(a, SEE)
    ELSE IF Flags(a)[FStr("epoch_threshold")] < 0 THEN Raise(a, SEE)
    ELSE LET c == FromU(a.p[1])
             thr == FromInt(Flags(a)[FStr("epoch_threshold")])
             now == FromU(a.cfg.now)
         IN Put(a, Bool(Less(Sub(c, now), thr)))

OpDef(v) ==
    LET a == Rd(Rd(v, 1), 2)
        b == IF Bad(a) THEN a ELSE Rd(a, U16(a.r[2]))
    IN IF Bad(b) THEN b
       ELSE LET par == TT(b)
                c == NewTape(b, b.r[3], 0, par.fid, par.did, par.plug)
            IN [c EXCEPT !.dheap[par.did] = [k \in DOMAIN @ \cup {b.r[1]} |-> IF k = b.r[1] THEN LastTid(c) ELSE @[k]]]

OpCall(v) ==
    IF ~(TT(v).cnt < v.cfg.callLimit) THEN Raise(v, SEE)
    ELSE LET a == Rd(v, 1) IN
         IF Bad(a) THEN a
         ELSE LET b == [a EXCEPT !.tapes[Tid(a)].cnt = @ + 1] IN
              IF b.r[1] \notin DOMAIN Defs(b) THEN Raise(b, "KeyError")
              ELSE LET sub == Defs(b)[b.r[1]]
                       c == [b EXCEPT !.tapes[sub].cnt = TT(b).cnt, !.tapes[sub].pc = 0,
                                      !.tapes[sub].plug = TT(b).plug]
                   IN Enter(c, sub, "def", Flags(b), b.tapes[sub].pc, <<>>, 0)

OpIf(v) ==
    LET a == Rd(v, 2)
        b == IF Bad(a) THEN a ELSE Pop(Rd(a, U16(a.r[1])))
    IN IF Bad(b) THEN b
       ELSE IF Truthy(b.p[1]) THEN EnterBlock(b, b.r[2], "if", <<>>) ELSE b

OpIfElse(v) ==
    LET a == Rd(v, 2)
        b == IF Bad(a) THEN a ELSE Rd(Rd(a, U16(a.r[1])), 2)
        c == IF Bad(b) THEN b ELSE Pop(Rd(b, U16(b.r[3])))
    IN IF Bad(c) THEN c
       ELSE EnterBlock(c, IF Truthy(c.p[1]) THEN c.r[2] ELSE c.r[4], "else", <<>>)

OpTryExcept(v) ==
    LET a == Rd(v, 2)
        b == IF Bad(a) THEN a ELSE Rd(Rd(a, U16(a.r[1])), 2)
        c == IF Bad(b) THEN b ELSE Rd(b, U16(b.r[3]))
    IN IF Bad(c) THEN c ELSE EnterBlock(c, c.r[2], "try", c.r[4])

\* (re)start of a loop iteration: the body tape shares flags and definitions
LoopTest(v, sub, iter) == \* v: the LOOP instruction's tape is on top
    IF Bad(v) THEN v
    ELSE IF v.stack = <<>> THEN Raise(v, "IndexError")
    ELSE IF ~Truthy(LastOf(v.stack)) THEN v
    ELSE IF ~(iter < v.cfg.callLimit) THEN Raise(v, SEE)
    ELSE Enter([v EXCEPT !.tapes[sub].pc = 0], sub, "loop", Flags(v), 0, <<>>, iter)

OpLoop(v) ==
    LET a == Rd(v, 2)
        b == IF Bad(a) THEN a ELSE Rd(a, U16(a.r[1]))
    IN IF Bad(b) THEN b
       ELSE IF b.stack = <<>> THEN Raise(b, "IndexError")
       ELSE LET par == TT(b)
                c == NewTape(b, b.r[2], par.cnt, par.fid, par.did, par.plug)
            IN LoopTest(c, LastTid(c), 0)

OpRandom(v, h) ==
    LET a == PopInt(v) IN
    IF Bad(a) THEN a
    ELSE LET n == DecS(a.p[1]) IN
         \* the size is checked against the item limit before anything is allocated
         IF n.neg THEN Raise(a, SEE)
         ELSE IF ~IsSmall(n) \/ ToInt(n) > a.cfg.maxItemSize THEN Raise(a, SEE)
         ELSE IF Len(h.rand) # ToInt(n) THEN Raise(a, "BADHINT")
         ELSE Put([a EXCEPT !.obs.alloc = ToInt(n)], h.rand)

\* SET_FLAG / UNSET_FLAG: the operand names a flag: a byte-string key of the
\* default table if there is one, else (one byte) the integer flag of that number
NumKey(b) == FInt(UInt(Norm(b)))      \* the integer flag a non-empty operand < 256 names
FlagKey(tbl, b) == IF FByt(b) \in DOMAIN tbl THEN FByt(b)
                   ELSE IF b # <<>> /\ Len(Norm(b)) <= 1 /\ NumKey(b) \in DOMAIN tbl THEN NumKey(b)
                   ELSE FByt(b)
OpSetFlag(v) ==
    LET a == RdKey(v) IN
    IF Bad(a) THEN a
    ELSE LET k == FlagKey(a.cfg.defaults, a.r[2]) IN
         IF k \notin DOMAIN a.cfg.defaults THEN Raise(a, SEE)
         ELSE [a EXCEPT !.fheap[TT(a).fid] = Overlay(@, [x \in {k} |-> a.cfg.defaults[k]]), !.obs.flagops = @ + 1]
OpUnsetFlag(v) ==
    LET a == RdKey(v) IN
    IF Bad(a) THEN a
    ELSE [a EXCEPT !.fheap[TT(a).fid] = Without(@, FlagKey(@, a.r[2])), !.obs.flagops = @ + 1]

OpSwap(v) == LET a == Rd(Rd(v, 1), 1) IN IF Bad(a) THEN a ELSE DoSwap(a, U8(a.r[1]), U8(a.r[2]))
OpReverse(v) ==
    LET a == Rd(v, 1) IN
    IF Bad(a) THEN a
    ELSE LET n == U8(a.r[1]) IN
         IF ~(Len(a.stack) >= n) THEN Raise(a, SEE)
         ELSE LET b == PopN(a, n) IN PutAll(b, b.p)

OpConcat(v) == LET a == PopN(v, 2) IN IF Bad(a) THEN a ELSE Put(a, a.p[2] \o a.p[1])
OpSplit(v) ==
    LET a == Pop(PopInt(v)) IN
    IF Bad(a) THEN a
    ELSE LET idx == DecS(a.p[1]) item == a.p[2] IN
         IF idx.neg THEN Raise(a, SEE)
         ELSE IF ~(IsSmall(idx) /\ ToInt(idx) < Len(item)) THEN Raise(a, SEE)
         ELSE Put(Put(a, Take(item, ToInt(idx))), Drop(item, ToInt(idx)))

PopStr(v) == LET a == Pop(v) IN IF Bad(a) THEN a
             ELSE IF ~Utf8Valid(LastOf(a.p)) THEN Raise(a, "UnicodeDecodeError") ELSE a
OpConcatStr(v) == LET a == PopStr(PopStr(v)) IN IF Bad(a) THEN a ELSE Put(a, a.p[2] \o a.p[1])
OpSplitStr(v) ==
    LET a == PopStr(PopInt(v)) IN
    IF Bad(a) THEN a
    ELSE LET idx == DecS(a.p[1]) item == a.p[2] IN
         IF idx.neg THEN Raise(a, SEE)
         ELSE IF ~(IsSmall(idx) /\ ToInt(idx) < Utf8Len(item)) THEN Raise(a, SEE)
         ELSE LET off == Utf8Offset(item, ToInt(idx)) IN
              Put(Put(a, Take(item, off)), Drop(item, off))

OpMerkleval(v, h) ==
    LET a == Rd(v, 32)
        b == DoSha(DoSha(DoDup(a), h), h)
        c == DoSha(DoSwap2(DoSwap(b, 1, 2)), h)
        d == DoVerify(DoEqual(Put(DoXor(c), a.r[1])))
    IN IF Bad(a) THEN a ELSE OpEval([d EXCEPT !.p = <<>>])

OpLess(v, strict) == LET a == PopIntN(v, 2) IN IF Bad(a) THEN a
    ELSE Put(a, Bool(IF strict THEN Less(DecS(a.p[1]), DecS(a.p[2])) ELSE Leq(DecS(a.p[1]), DecS(a.p[2]))))

\* GET_VALUE: one string-keyed entry (or each element of a list / tuple entry), serialised by
\* type; `returned` is the interpreter's own string key (a bool: nothing is pushed)
PutValue(v, h, e) ==
    IF Bad(v) THEN v
    ELSE IF e.t \in {"bytes", "str", "float"} THEN Put(v, e.v)
    ELSE IF e.t = "bytearray" THEN Raise(v, "TypeError")          \* the stack holds only bytes items
    ELSE IF e.t = "floatoverflow" THEN Raise(v, "OverflowError")  \* not representable in 32 bits
    ELSE IF e.t = "int" THEN PutInt(v, h, MkInt(e.neg, e.v))
    ELSE v
RECURSIVE PutValues(_, _, _)
PutValues(v, h, es) == IF es = <<>> \/ Bad(v) THEN v ELSE PutValues(PutValue(v, h, Head(es)), h, Tail(es))
OpGetValue(v, h) ==
    LET a == RdKey(v) IN
    IF Bad(a) THEN a
    ELSE LET key == a.r[2] IN
         IF ~Utf8Valid(key) THEN Raise(a, "UnicodeDecodeError")
         ELSE IF key = KReturned /\ a.ret THEN a
         ELSE IF ~ScHas(a.cfg.sc, key) THEN Raise(a, SEE)
         ELSE LET e == ScGet(a.cfg.sc, key) IN
              IF e.t = "list" THEN PutValues(a, h, e.items) ELSE PutValue(a, h, e)

\* float comparisons / conversions: length checks here, value from primitive
PopF4(v) == PopF(v, "ValueError")
OpFloatCmp(v, h, name) ==
    LET a == PopF4(PopF4(v)) IN
    WithPrim(a, h, name, <<a.p[1], a.p[2]>>, LAMBDA b, r : Put(b, r[1]))
OpI2F(v, h) == LET a == PopInt(v) IN WithPrim(a, h, "i2f", <<a.p[1]>>, LAMBDA b, r : Put(b, r[1]))
OpF2I(v, h) == LET a == PopF4(v) IN
               WithPrim(a, h, "f2i", <<a.p[1]>>, LAMBDA b, r : PutInt(b, h, DecS(r[1])))

OpCheckMultisig(v, h) ==
    LET a == Rd(Rd(Rd(RunSigExt(v), 1), 1), 1)
        b == IF Bad(a) THEN a ELSE PopN(a, U8(a.r[3]) + U8(a.r[2]))
    IN IF Bad(b) THEN b
       ELSE LET n == U8(b.r[3]) m == U8(b.r[2])
                keys == SubSeq(b.p, 1, n) sigs == SubSeq(b.p, n + 1, n + m)
                c == MsigSigs(b, h, U8(b.r[1]), sigs, keys, {})
            IN IF Bad(c) THEN c ELSE Put(c, Bool(Cardinality(c.x) = Len(sigs)))

OpSign(v, h) ==
    LET a == Pop(Rd(RunSigExt(v), 1)) IN
    IF Bad(a) THEN a
    ELSE IF Len(a.p[1]) # 32 THEN Raise(a, "ValueError")
    ELSE LET flag == U8(a.r[1])
             msg == Message(SigFields(a.cfg.sc), flag)
         IN WithPrim(PutGet(a, msg), h, "sign", <<a.p[1], msg>>,
               LAMBDA b, r : LET sig == IF flag # 0 THEN r[1] \o <<flag>> ELSE r[1] IN
                             Put(CacheIf(b, 9, <<115>>, sig), sig))
OpSignStack(v, h) ==
    LET a == PopN(v, 2) IN
    IF Bad(a) THEN a
    ELSE IF Len(a.p[1]) # 32 THEN Raise(a, "ValueError")
    ELSE WithPrim(a, h, "sign", <<a.p[1], a.p[2]>>,
               LAMBDA b, r : Put(CacheIf(b, 9, <<115>>, r[1]), r[1]))
OpCheckSigStack(v, h) ==
    LET a == Pop(v)
        b == IF Bad(a) THEN a ELSE IF Len(a.p[1]) # 32 THEN Raise(a, "ValueError") ELSE PopN(a, 2)
    IN IF Bad(b) THEN b
       ELSE IF Len(b.p[3]) # 64 THEN Raise(b, "ValueError")
       ELSE WithPrim(b, h, "verify", <<b.p[1], b.p[2], b.p[3]>>, LAMBDA c, r : Put(c, r[1]))

OpDeriveScalar(v, h) == LET a == Pop(v) IN
    WithPrim(a, h, "derive_scalar", <<a.p[1]>>, LAMBDA b, r : Put(CacheIf(b, 1, <<120>>, r[1]), r[1]))
OpClampScalar(v) == LET a == Pop(Rd(v, 1)) IN
    IF Bad(a) THEN a
    ELSE IF Len(a.p[1]) < 32 THEN Raise(a, "ValueError")
    ELSE Put(a, Clamp(a.p[1], Truthy(a.r[1])))
OpAddScalars(v, h) == LET a == Rd(v, 1) b == IF Bad(a) THEN a ELSE PopN(a, U8(a.r[1])) IN
    IF Bad(b) THEN b ELSE IF b.p = <<>> THEN Raise(b, "IndexError")
    ELSE WithPrim(b, h, "addsc", b.p, LAMBDA c, r : Put(c, r[1]))
\* SUBTRACT_SCALARS / SUBTRACT_POINTS: pop the first, then pop-and-subtract one at a time
RECURSIVE SubFold(_, _, _, _, _)
SubFold(v, h, name, acc, n) == \* result left in scratch register x
    IF Bad(v) THEN v
    ELSE IF n <= 0 THEN [v EXCEPT !.x = acc]
    ELSE LET a == Pop(v)
             b == WithPrim(a, h, name, <<acc, LastOf(a.p)>>, LAMBDA s, r : [s EXCEPT !.x = r[1]])
         IN IF Bad(b) THEN b ELSE SubFold(b, h, name, b.x, n - 1)
OpSubFold(v, h, name) ==
    LET a == Pop(Rd(v, 1)) IN
    IF Bad(a) THEN a
    ELSE LET c == SubFold(a, h, name, a.p[1], U8(a.r[1]) - 1) IN IF Bad(c) THEN c ELSE Put(c, c.x)
OpSubScalars(v, h) == OpSubFold(v, h, "subsc")
OpDerivePoint(v, h) == LET a == Pop(v) IN
    WithPrim(a, h, "derive_point", <<a.p[1]>>, LAMBDA b, r : Put(CacheIf(b, 2, <<88>>, r[1]), r[1]))
OpSubPoints(v, h) == OpSubFold(v, h, "subpts")

\* adapter signatures: r = <<r, R, sa>> / <<t, T, R, sa>> / <<bool>> / <<RT, s>>
OpMasu(v, h) == LET a == PopN(v, 3) IN
    WithPrim(a, h, "masu", a.p, LAMBDA b, r :
        Put(Put(CacheIf(CacheIf(CacheIf(CacheIf(b, 3, <<114>>, r[1]), 4, <<82>>, r[2]), 6, <<84>>, a.p[1]),
                        8, <<115, 97>>, r[3]), r[2]), r[3]))
\* MAKE_ADAPTER_SIG_PRIVATE: pops seed, t, m; pushes T = clamp(t)*G, R, sa.  The nonce
\* (hence R and sa) is the implementation's choice: R and sa are taken from the hint
\* (their relation to T, m and the key is what Adapter.tla / C17 decides); what is
\* checked here: operands, order, T, and the flag-gated cache writes.
OpMasv(v, h) ==
    LET a == Pop(v)
        b == Pop(a)
        c == IF Bad(b) THEN b ELSE IF Len(b.p[2]) < 32 THEN Raise(b, "ValueError") ELSE Pop(b)
    IN IF Bad(c) THEN c
       ELSE LET t == Clamp(c.p[2], FALSE) IN
            WithPrim(c, h, "derive_point", <<t>>, LAMBDA d, r :
               IF Len(h.pushed) # 3 \/ Len(h.pushed[2]) # 32 \/ Len(h.pushed[3]) # 32 THEN Raise(d, "BADHINT")
               ELSE LET T == r[1] R == h.pushed[2] sa == h.pushed[3] IN
                    Put(Put(Put(CacheIf(CacheIf(CacheIf(CacheIf(d, 4, <<82>>, R), 5, <<116>>, t), 6, <<84>>, T),
                                        8, <<115, 97>>, sa), T), R), sa))
OpCas(v, h) == LET a == PopN(v, 5) IN WithPrim(a, h, "cas", a.p, LAMBDA b, r : Put(b, r[1]))
OpDas(v, h) == LET a == Pop(v)
                   b == IF Bad(a) THEN a ELSE IF Len(a.p[1]) < 32 THEN Raise(a, "ValueError") ELSE PopN(a, 2)
    IN WithPrim(b, h, "das", b.p, LAMBDA c, r :
        Put(Put(CacheIf(CacheIf(c, 7, <<82, 84>>, r[1]), 9, <<115>>, r[2]), r[1]), r[2]))

\* INVOKE: contract answers come from the hint (the contract is the embedder's)
OpInvoke(v, h) ==
    LET a == PopInt(Pop(v)) IN
    IF Bad(a) THEN a
    ELSE LET n == DecS(a.p[2]) IN
         IF n.neg THEN Raise(a, SEE)
         ELSE IF ~IsSmall(n) THEN Raise([a EXCEPT !.stack = <<>>], "IndexError")  \* pops until empty
         ELSE LET b == PopN(a, ToInt(n)) IN
              IF Bad(b) THEN b
              ELSE IF ~TT(b).contr \/ b.p[1] \notin b.cfg.contracts THEN Raise(b, SEE)
              ELSE WithPrim(b, h, "abi", <<b.p[1]>> \o SubSeq(b.p, 3, Len(b.p)),
                     LAMBDA c, r : LET d == PutAll(c, r) IN
                        IF Bad(d) \/ ~FlagOn(Flags(d), FInt(0)) THEN d ELSE CacheList(d, <<73, 82>>, r))

OpBitwise(v, which) == LET a == PopN(v, 2) IN IF Bad(a) THEN a
    ELSE Put(a, CASE which = "xor" -> XorB(a.p[1], a.p[2])
                  [] which = "or"  -> OrB(a.p[1], a.p[2])
                  [] which = "and" -> AndB(a.p[1], a.p[2]))

\* CHECK_TEMPLATE: for each set flag bit in ascending order pop a template and
\* compare it with that sigfield (plugin answers, if plugins are installed, come
\* from the hint: h.ct[i] = TRUE iff any plugin accepted the i-th comparison)
RECURSIVE CtLoop(_, _, _, _, _)
CtLoop(v, h, flag, i, acc) == \* acc = <<all_valid, comparisons so far>>
    IF Bad(v) THEN v
    ELSE IF i > 8 THEN Put(v, Bool(acc[1]))
    ELSE IF ~Bit(flag, i - 1) THEN CtLoop(v, h, flag, i + 1, acc)
    ELSE LET a == Pop(v) IN
         IF Bad(a) THEN a
         ELSE IF ~ScHas(a.cfg.sc, KSigfield(i)) THEN Raise(a, "KeyError")
         ELSE IF ScGet(a.cfg.sc, KSigfield(i)).t # "bytes" THEN Raise(a, "TypeError")   \* compared on a Stack of bytes
         ELSE LET field == ScGet(a.cfg.sc, KSigfield(i)).v
                  n == acc[2] + 1
                  ok == IF a.cfg.nct > 0 /\ TT(a).plug THEN (n <= Len(h.ct) /\ h.ct[n]) ELSE LastOf(a.p) = field
              IN CtLoop(a, h, flag, i + 1, <<acc[1] /\ ok, n>>)
OpCheckTemplate(v, h) ==
    LET a == IF FInt(10) \notin DOMAIN Flags(v) \/ Flags(v)[FInt(10)] # 0 THEN RunSigExt(v) ELSE v
        b == Rd(a, 1)
    IN IF Bad(b) THEN b ELSE CtLoop(b, h, U8(b.r[1]), 1, <<TRUE, 0>>)

OpTaproot(v, h) ==
    LET a == Pop(Rd(v, 1)) IN
    IF Bad(a) THEN a
    ELSE IF Len(a.p[1]) # 32 THEN Raise(a, SEE)
    ELSE IF a.stack = <<>> THEN Raise(a, "IndexError")
    ELSE IF Len(LastOf(a.stack)) = 32
         THEN LET b == PopN(a, 2) IN   \* p[2] = pubkey, p[3] = script
              WithPrim(b, h, "taproot", <<b.p[2], b.p[3]>>, LAMBDA c, r :
                  IF r[1] # c.p[1] THEN Put(c, False1)
                  ELSE LET d == Put(c, c.p[3]) IN OpEval([d EXCEPT !.p = <<>>]))
         ELSE LET b == PopN(RunSigExt(Put(a, a.p[1])), 2) IN
              IF Bad(b) THEN b
              ELSE CheckSigCore(b, h, U8(b.r[1]), b.p[2], b.p[3], LAMBDA c, ok : Put(c, Bool(ok)))

\* CHECK_TRANSFER: id, amount, constraint, destination, count, then count sources, then count proofs are popped
\* (sources and proofs in corresponding order); proof i is checked by itself, against source i and the destination,
\* and against the constraint when one is given; the aggregate of all proofs for the destination must reach the
\* amount.  What a proof *means* is the contract's business: the harness installs a reference contract whose four
\* functions are the total functions below, so that which item is paired with which is decided here.
RefVP(p) == p # <<>> /\ p[1] % 2 = 1                          \* verify_txn_proof
RefVT(p, s) == p # <<>> /\ s # <<>> /\ p[Len(p)] = s[1]        \* verify_transfer(proof, source, destination)
RefVC(p, c) == p # <<>> /\ c[1] <= p[1]                        \* verify_txn_constraint(proof, constraint), c non-empty
RefAgg(p) == IF Len(p) >= 2 THEN p[2] ELSE 0                  \* contribution of a proof to the destination's aggregate
RECURSIVE SumAgg(_, _)
SumAgg(ps, i) == IF i > Len(ps) THEN 0 ELSE RefAgg(ps[i]) + SumAgg(ps, i + 1)
OpCheckTransfer(v, h) ==
    LET a == Pop(Pop(Pop(PopInt(Pop(v))))) IN  \* id, amount, constraint, destination, count
    IF Bad(a) THEN a
    ELSE LET cnt == FromU(a.p[5]) IN
         IF ~IsSmall(cnt) THEN Raise([a EXCEPT !.stack = <<>>], "IndexError")     \* every item is taken before the stack runs out
         ELSE LET b == PopN(a, 2 * ToInt(cnt)) IN
              IF Bad(b) THEN b
              ELSE IF ~TT(b).contr \/ b.p[1] \notin b.cfg.contracts THEN Raise(b, SEE)
              ELSE LET n == ToInt(cnt)
                       src == [i \in 1..n |-> b.p[5 + i]]
                       prf == [i \in 1..n |-> b.p[5 + n + i]]
                       ok == \A i \in 1..n : RefVP(prf[i]) /\ RefVT(prf[i], src[i]) /\ (b.p[3] = <<>> \/ RefVC(prf[i], b.p[3]))
                   IN Put(b, IF ok /\ Leq(DecS(b.p[2]), FromNat(SumAgg(prf, 1))) THEN <<255>> ELSE <<0>>)

\* unassigned opcode: one signed count byte, remove that many items
OpNop(v) == LET a == Rd(v, 1) IN
            IF Bad(a) THEN a
            ELSE IF S8(U8(a.r[1])) < 0 THEN Raise(a, SEE) ELSE PopN(a, S8(U8(a.r[1])))

\* a soft-forked op installed at `code`: reads the count byte, removes count
\* items, and may raise depending on a predicate over the removed items
ForkPred(kind, items) ==
    CASE kind = "never"   -> TRUE
      [] kind = "always"  -> FALSE
      [] kind = "alltrue" -> \A i \in 1..Len(items) : Truthy(items[i])
      [] kind = "nonempty" -> \A i \in 1..Len(items) : items[i] # <<>>
      [] kind = "topff" -> items = <<>> \/ items[1] = <<255>>
OpFork(v, kind) == LET a == OpNop(v) IN
                   IF Bad(a) THEN a ELSE IF ForkPred(kind, a.p) THEN a ELSE Raise(a, SEE)

----------------------------------------------------------------------------
Dispatch(v, h, op) ==
    CASE op = 0  -> Put(v, False1)
      [] op = 1  -> Put(v, True1)
      [] op = 2  -> OpPush0(v)
      [] op = 3  -> OpPush1(v)
      [] op = 4  -> OpPush2(v)
      [] op = 5  -> OpGetMessage(v)
      [] op = 6  -> OpPop0(v)
      [] op = 7  -> OpPop1(v)
      [] op = 8  -> OpSize(v, h)
      [] op = 9  -> OpWriteCache(v)
      [] op = 10 -> OpReadCache(v)
      [] op = 11 -> OpReadCacheSize(v, h)
      [] op = 12 -> OpReadCacheStack(v)
      [] op = 13 -> OpReadCacheStackSize(v, h)
      [] op = 14 -> OpAddInts(v, h)
      [] op = 15 -> OpSubInts(v, h)
      [] op = 16 -> OpMultInts(v, h)
      [] op = 17 -> OpDivModInt(v, h, "div")
      [] op = 18 -> OpDivModInts(v, h, "div")
      [] op = 19 -> OpDivModInt(v, h, "mod")
      [] op = 20 -> OpDivModInts(v, h, "mod")
      [] op = 21 -> OpAddFloats(v, h)
      [] op = 22 -> OpSubFloats(v, h)
      [] op = 23 -> OpDivModFloat(v, h, "divf")
      [] op = 24 -> OpDivFloats(v, h)
      [] op = 25 -> OpDivModFloat(v, h, "modf")
      [] op = 26 -> OpModFloats(v, h)
      [] op = 27 -> OpAddPoints(v, h)
      [] op = 28 -> OpCopy(v)
      [] op = 29 -> DoDup(v)
      [] op = 30 -> DoSha(v, h)
      [] op = 31 -> OpShake(v, h)
      [] op = 32 -> DoVerify(v)
      [] op = 33 -> DoEqual(v)
      [] op = 34 -> DoVerify(DoEqual(v))
      [] op = 35 -> OpCheckSig(v, h)
      [] op = 36 -> DoVerify(OpCheckSig(v, h))
      [] op = 37 -> OpCheckTimestamp(v)
      [] op = 38 -> DoVerify(OpCheckTimestamp(v))
      [] op = 39 -> OpCheckEpoch(v)
      [] op = 40 -> DoVerify(OpCheckEpoch(v))
      [] op = 41 -> OpDef(v)
      [] op = 42 -> OpCall(v)
      [] op = 43 -> OpIf(v)
      [] op = 44 -> OpIfElse(v)
      [] op = 45 -> OpEval(v)
      [] op = 46 -> (LET a == Pop(v) IN IF Bad(a) THEN a ELSE Put(a, NotB(a.p[1])))
      [] op = 47 -> OpRandom(v, h)
      [] op = 48 -> DoReturn(v)
      [] op = 49 -> OpSetFlag(v)
      [] op = 50 -> OpUnsetFlag(v)
      [] op = 51 -> PutInt(v, h, FromNat(Len(v.stack)))
      [] op = 52 -> OpSwap(v)
      [] op = 53 -> DoSwap2(v)
      [] op = 54 -> OpReverse(v)
      [] op = 55 -> OpConcat(v)
      [] op = 56 -> OpSplit(v)
      [] op = 57 -> OpConcatStr(v)
      [] op = 58 -> OpSplitStr(v)
      [] op = 59 -> OpCheckTransfer(v, h)
      [] op = 60 -> OpMerkleval(v, h)
      [] op = 61 -> OpTryExcept(v)
      [] op = 62 -> OpLess(v, TRUE)
      [] op = 63 -> OpLess(v, FALSE)
      [] op = 64 -> OpGetValue(v, h)
      [] op = 65 -> OpFloatCmp(v, h, "fless")
      [] op = 66 -> OpFloatCmp(v, h, "fleq")
      [] op = 67 -> OpI2F(v, h)
      [] op = 68 -> OpF2I(v, h)
      [] op = 69 -> OpLoop(v)
      [] op = 70 -> OpCheckMultisig(v, h)
      [] op = 71 -> DoVerify(OpCheckMultisig(v, h))
      [] op = 72 -> OpSign(v, h)
      [] op = 73 -> OpSignStack(v, h)
      [] op = 74 -> OpCheckSigStack(v, h)
      [] op = 75 -> OpDeriveScalar(v, h)
      [] op = 76 -> OpClampScalar(v)
      [] op = 77 -> OpAddScalars(v, h)
      [] op = 78 -> OpSubScalars(v, h)
      [] op = 79 -> OpDerivePoint(v, h)
      [] op = 80 -> OpSubPoints(v, h)
      [] op = 81 -> OpMasu(v, h)
      [] op = 82 -> OpMasv(v, h)
      [] op = 83 -> OpCas(v, h)
      [] op = 84 -> OpDas(v, h)
      [] op = 85 -> OpInvoke(v, h)
      [] op = 86 -> OpBitwise(v, "xor")
      [] op = 87 -> OpBitwise(v, "or")
      [] op = 88 -> OpBitwise(v, "and")
      [] op = 89 -> OpCheckTemplate(v, h)
      [] op = 90 -> DoVerify(OpCheckTemplate(v, h))
      [] op = 91 -> OpTaproot(v, h)
      [] OTHER   -> IF op \in DOMAIN v.cfg.forks THEN OpFork(v, v.cfg.forks[op]) ELSE OpNop(v)

\* Exec: fetch one opcode from the running tape and run the instruction.  If
\* the instruction did not start a sub-tape its scratch registers are cleared.
Exec(v, h) ==
    LET t == TT(v)
        op == t.code[t.pc + 1]
        a == [SetPc(v, t.pc + 1) EXCEPT !.r = <<>>, !.p = <<>>, !.obs.alloc = 0,
                                       !.obs.last = <<Len(v.frames), t.pc, op>>,
                                       !.obs.hist = IF v.cfg.hist THEN Append(@, <<v.sidx, Len(v.frames), t.pc, op>>) ELSE @]
        b == Dispatch(a, h, op)
    IN [b EXCEPT !.r = <<>>, !.p = <<>>, !.x = <<>>]

----------------------------------------------------------------------------
\* Leave: the running tape has reached its end.
PopFrame(v) == [v EXCEPT !.frames = SubSeq(@, 1, Len(@) - 1)]

Verdict(v) == v.status = "done" /\ Len(v.stack) = 1 /\ v.stack[1] = <<255>>

LeaveTop(v) ==
    IF v.cfg.auth /\ v.sidx < Len(v.cfg.scripts)
    THEN \* next authorization script: new tape on the same stack and cache; the
         \* definitions and call count carry over, flags are the defaults; a
         \* pending RETURN of the previous script ends with that script
         LET prev == TT(v)
             a == NewFlags(PopFrame(v), EmptyFn)
             b == NewTape(a, v.cfg.scripts[v.sidx + 1], prev.cnt, Len(a.fheap), prev.did, TRUE)
             c == [b EXCEPT !.sidx = @ + 1, !.ret = FALSE]
         IN Enter(c, LastTid(c), "top", EmptyFn, 0, <<>>, 0)
    ELSE [PopFrame(v) EXCEPT !.status = "done"]

Leave(v, h) ==
    LET f == TopF(v) IN
    IF f.kind = "top" THEN LeaveTop(v)
    ELSE LET a == PopFrame(v) IN   \* the instruction's own tape is on top again
         CASE f.kind \in {"if", "else", "try", "except"} -> IF a.ret THEN DoReturn(a) ELSE a
           [] f.kind = "def" -> [a EXCEPT !.tapes[f.tid].pc = f.saved, !.ret = FALSE]
           [] f.kind = "eval" ->
                IF a.ret /\ FlagOn(Flags(a), FStr("eval_return")) THEN DoReturn(a)
                ELSE [a EXCEPT !.ret = FALSE]
           [] f.kind = "loop" ->
                \* a RETURN in the body ends the loop and, like IF, the enclosing tape
                IF a.ret THEN DoReturn(a) ELSE LoopTest(a, f.tid, f.iter + 1)

----------------------------------------------------------------------------
\* Unwind: an exception propagates to the nearest enclosing TRY body (whose
\* EXCEPT body then runs with the serialised error in cache key b"E"), or out
\* of the run.
TryDepth(v) == LET S == {i \in 1..Len(v.frames) : v.frames[i].kind = "try"} IN
               IF S = {} THEN 0 ELSE CHOOSE i \in S : \A j \in S : j <= i

Unwind(v, h) ==
    LET d == TryDepth(v) IN
    IF d = 0 THEN [v EXCEPT !.status = "raised", !.frames = <<>>]
    ELSE LET f == v.frames[d]
             \* a call that is left by an exception restores the pointer of its definition tape (try / finally in OP_CALL):
             \* innermost dropped frame first, so that a tape entered recursively ends with its outermost saved pointer
             RECURSIVE Restore(_, _)
             Restore(w, i) == IF i < d THEN w
                              ELSE LET g == v.frames[i] IN
                                   Restore(IF g.kind = "def" THEN [w EXCEPT !.tapes[g.tid].pc = g.saved] ELSE w, i - 1)
             a == [Restore(v, Len(v.frames)) EXCEPT !.frames = SubSeq(@, 1, d - 1), !.exc = "none", !.lastexc = v.exc]
             b == CacheList(a, <<69>>, <<h.etext>>)
         IN EnterBlock(b, f.xbody, "except", <<>>)

----------------------------------------------------------------------------
Step(v, h) ==
    IF v.status # "run" THEN v
    ELSE IF Bad(v) THEN Unwind(v, h)
    ELSE IF TT(v).pc >= Len(TT(v).code) THEN Leave(v, h)
    ELSE Exec(v, h)

StepKind(v) == IF v.status # "run" THEN "halt"
               ELSE IF Bad(v) THEN "unwind"
               ELSE IF TT(v).pc >= Len(TT(v).code) THEN "leave" ELSE "exec"

----------------------------------------------------------------------------
\* Initial state for a configuration record cfg:
\*  [scripts, auth, maxItems, maxItemSize, callLimit, sc, bc0, defaults, toset, flags,
\*   nsig, nct, contracts, now, forks, ret0]
InitVM(cfg) ==
    LET tbl == SetTapeFlags(EmptyFn, cfg.defaults, cfg.toset, cfg.flags) IN
    [cfg |-> cfg,
     tapes |-> <<[code |-> cfg.scripts[1], pc |-> 0, cnt |-> 0, fid |-> 1, did |-> 1,
                  plug |-> TRUE, contr |-> TRUE]>>,
     frames |-> <<Frame(1, "top", 0, <<>>, 0)>>,
     stack |-> <<>>, bc |-> cfg.bc0, ret |-> cfg.ret0,
     fheap |-> <<tbl>>, dheap |-> <<[x \in {} |-> 0]>>,
     status |-> "run", exc |-> "none", lastexc |-> "none", sidx |-> 1,
     r |-> <<>>, p |-> <<>>, x |-> <<>>,
     obs |-> [plug |-> 0, last |-> <<0, 0, 0>>, hist |-> <<>>, alloc |-> 0, flagops |-> 0]]

BaseCfg == [scripts |-> <<<<>>>>, auth |-> FALSE, maxItems |-> 1024, maxItemSize |-> 1024,
            callLimit |-> 128, sc |-> <<>>, bc0 |-> [x \in {} |-> 0], defaults |-> StdDefaults,
            toset |-> DOMAIN StdDefaults,
            flags |-> EmptyFn, nsig |-> 0, nct |-> 0, contracts |-> {}, now |-> <<>>,
            forks |-> [x \in {} |-> ""], ret0 |-> FALSE, hist |-> FALSE]

----------------------------------------------------------------------------
\* State predicates used as invariants by the configurations
Depth(v) == Len(v.frames)

StackBounded(v) == Len(v.stack) <= v.cfg.maxItems
ItemBounded(v)  == \A i \in 1..Len(v.stack) : Len(v.stack[i]) <= v.cfg.maxItemSize
PcInRange(v)    == \A i \in 1..Len(v.tapes) : v.tapes[i].pc >= 0 /\ v.tapes[i].pc <= Len(v.tapes[i].code)
\* number of nested call / eval frames never exceeds the call-stack limit
CallDepth(v)    == Cardinality({i \in 1..Len(v.frames) : v.frames[i].kind \in {"def", "eval"}})
DepthBounded(v) == CallDepth(v) <= v.cfg.callLimit
LoopBounded(v)  == \A i \in 1..Len(v.frames) : v.frames[i].kind = "loop" => v.frames[i].iter < v.cfg.callLimit
\* plugins and contracts are visible to every running tape
ConfigUniform(v) == \A i \in 1..Len(v.frames) : v.tapes[v.frames[i].tid].plug /\ v.tapes[v.frames[i].tid].contr
\* when a tape resumes after a construct that consumed a RETURN the flag is down:
\* the flag is only ever up while every frame above the one that returned is ending
ReturnScoped(v) == (v.status = "run" /\ ~Bad(v) /\ v.ret) => TT(v).pc = Len(TT(v).code)
=============================================================================
