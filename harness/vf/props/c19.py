"""C19 - extension registries behave as sets; runs do not leak state into later runs."""
import json, multiprocessing as mp, os, random, shutil, sys
from ..par import SafePool
from concurrent.futures import ThreadPoolExecutor
from typing import Protocol, runtime_checkable
from ..common import Report, REPO
from .. import tlc

CFG = '''SPECIFICATION Spec
CONSTANTS
  NPlug = %d
  Mode = "%s"
  Emit = TRUE
VIEW View
INVARIANT TypeOK
INVARIANT HistoryDetermines
INVARIANT ContractsChecked
CHECK_DEADLOCK FALSE
'''
SCOPE = {'sx': 'signature_extensions', 'ct': 'check_template'}
SOURCES = {
    'macro_def_use': ('!= m [ a ] { push a } !m [ d1 ]', bytes.fromhex('0201')),
    'macro_use_only': ('!m [ d1 ]', None),
    'alias1': ('zztrue', bytes.fromhex('01')),
    'alias2': ('zzdup', bytes.fromhex('1d')),
    'plain': ('true dup', bytes.fromhex('011d')),
}
ALIASES = {1: ('ZZTRUE', 'OP_TRUE'), 2: ('ZZDUP', 'OP_DUP')}


@runtime_checkable
class HasFoo(Protocol):
    def foo(self) -> int: ...


@runtime_checkable
class HasBar(Protocol):
    def bar(self) -> int: ...


class C1:
    def abi(self, args):
        return [b'\x01']


class C2:
    def foo(self):
        return 1


IFACES = {1: HasFoo, 2: HasBar}
CONTRACTS = {1: (b'contract-1', C1()), 2: (b'contract-2', C2()), 3: (b'contract-1', C1())}     # 3: another object under the id of 1


class World:
    """The real registries, with snapshot / restore so that each history starts fresh."""

    def __init__(self):
        if REPO not in sys.path:
            sys.path.insert(0, REPO)
        import tapescript.functions as F
        import tapescript.parsing as P
        self.F, self.P = F, P
        self.called = []
        self.plugs = {s: {i: self._mk(s, i) for i in (1, 2, 3)} for s in SCOPE}
        self.base = {
            'plugins': {k: list(v) for k, v in F._plugins.items()}, 'contracts': dict(F._contracts),
            'ifaces': dict(F._contract_interfaces), 'aliases': dict(F.opcode_aliases),
        }

    def _mk(self, s, i):
        def plugin(tape, stack, cache):
            self.called.append((s, i))
            return True
        plugin.__name__ = f'plugin_{s}_{i}'
        return plugin

    def fresh(self):
        F, P = self.F, self.P
        F._plugins.clear()
        F._plugins.update({k: list(v) for k, v in self.base['plugins'].items()})
        F._contracts.clear(); F._contracts.update(self.base['contracts'])
        F._contract_interfaces.clear(); F._contract_interfaces.update(self.base['ifaces'])
        F.opcode_aliases.clear(); F.opcode_aliases.update(self.base['aliases'])
        # a fresh interpreter has empty default-argument dictionaries
        for fn in (P.assemble, P.parse_comptime, P.define_macro, P.invoke_macro, P.parse_next, P.parse_if, P.parse_def,
                   P.parse_try, P.parse_loop, P.parse_else, P.parse_except, F.run_script, F.run_auth_scripts,
                   F.set_tape_flags, F.run_tape):
            for d in (fn.__defaults__ or ()):
                if isinstance(d, dict):
                    d.clear()

    def snapshot(self):
        F = self.F
        out = {}
        for s, name in SCOPE.items():
            lst = F._plugins.get(name, [])
            ids = [i for i in (1, 2, 3) if self.plugs[s][i] in lst]
            foreign = [p for p in lst if p not in self.plugs[s].values()]
            out[s] = sorted(ids)
            if len(lst) != len(set(map(id, lst))) or foreign:
                out[s] = out[s] + ['dup-or-foreign']
        out['contr'] = sorted(i for i, (cid, obj) in CONTRACTS.items() if F._contracts.get(cid) is obj)
        out['ifaces'] = sorted(i for i, t in IFACES.items() if t.__name__ in F._contract_interfaces)
        out['alias'] = sorted(i for i, (a, _) in ALIASES.items() if a in F.opcode_aliases)
        return out

    def call(self, c):
        """apply one call; returns (res, extra-disagreement or None)"""
        F, P = self.F, self.P
        f, s, x = c['f'], c['s'], c['x']
        try:
            if f == 'add_plugin':
                F.add_plugin(SCOPE[s], self.plugs[s][x])
            elif f == 'remove_plugin':
                F.remove_plugin(SCOPE[s], self.plugs[s][x])
            elif f == 'reset_plugins':
                F.reset_plugins(SCOPE[s])
            elif f == 'add_contract':
                F.add_contract(*CONTRACTS[x])
            elif f == 'remove_contract':
                F.remove_contract(CONTRACTS[x][0])
            elif f == 'add_iface':
                F.add_contract_interface(IFACES[x])
            elif f == 'remove_iface':
                F.remove_contract_interface(IFACES[x])
            elif f == 'add_alias':
                a, opn = ALIASES[x]
                if s == 'lower':           # the same alias, and the op name, spelled in lower / mixed case
                    a, opn = a.lower(), opn[:4] + opn[4:].lower()
                other = [opn2 for i, (a2, opn2) in ALIASES.items() if i != x][0]
                was = F.opcode_aliases.get(ALIASES[x][0])
                try:
                    F.add_alias(a, opn if was is None else other)      # a refused add must not rebind the alias
                finally:
                    now = F.opcode_aliases.get(ALIASES[x][0])
                    if was is not None and now != was:
                        return 'ok', f'add_alias({a!r}) rebound the active alias {ALIASES[x][0]} from {was} to {now}'
                    builtin = F.opcode_aliases.get('EQ')
                    if builtin != 'OP_EQUAL':
                        return 'ok', f'built-in alias EQ is now {builtin}'
                if s == 'lower' and x == 1:       # a built-in alias in lower case is in use as well
                    try:
                        F.add_alias('eq', 'OP_DUP')
                        return 'ok', 'add_alias("eq", ..) accepted although EQ is a built-in alias'
                    except ValueError:
                        pass
            elif f == 'run':
                before = self.snapshot()
                self.called = []
                cache = {'sigfield1': b'\xaa'}
                contracts, plugins = {}, {}
                script = bytes.fromhex('0500' '06' '02aa' '5901' '06')      # msg x00 pop0 push xaa check_template x01 pop0
                tape, stack, _ = F.run_script(script, cache, contracts, plugins=plugins)
                used = {sc: sorted({i for (s2, i) in self.called if s2 == sc}) for sc in SCOPE}
                got_c = sorted(i for i, (cid, obj) in CONTRACTS.items() if tape.contracts.get(cid) is obj)
                if used['sx'] != before['sx'] or used['ct'] != before['ct'] or got_c != before['contr']:
                    return 'ok', f"run used plugins {used} contracts {got_c} but active are {before}"
                if cache != {'sigfield1': b'\xaa'} or contracts != {} or plugins != {}:
                    return 'ok', f'run modified the caller\'s dictionaries: {cache} {contracts} {plugins}'
                # a caller cache that already carries a timestamp is still the caller's: a run that writes the cache
                # (variables, b'P', the RETURN marker) must not touch it, and a second run must not see the first
                cache2 = {'timestamp': 1_700_000_000, 'sigfield1': b'\xaa'}
                from ..gen.progs import push as _push, op as _op, block as _block, b1 as _b1
                s2 = (_push(b'\x01') + _op('WRITE_CACHE', _b1(1), b'k', _b1(1)) + _push(b'\x07') + _op('POP0')
                      + _op('TRUE') + _block('IF', _op('RETURN')) + _push(b'\x03'))
                s3 = _op('TRUE') + _block('IF', _op('TRUE')) + _push(b'\x05') + _push(b'\x06')
                _, st1, _ = F.run_script(s2, cache2)
                _, st2, _ = F.run_script(s3, cache2)
                if st1.list() != [] or st2.list() != [b'\xff', b'\x05', b'\x06']:
                    return 'ok', f'a run on a reused caller cache depends on the previous run: {st1.list()} {st2.list()}'
                if cache2 != {'timestamp': 1_700_000_000, 'sigfield1': b'\xaa'}:
                    return 'ok', f'run modified the caller\'s cache that carries a timestamp: {cache2}'
                # every active plugin runs exactly once per plugin-running instruction: signature extensions
                # before GET_MESSAGE and before CHECK_TEMPLATE (flag 10 default), check_template plugins once
                cnt = {k: self.called.count(k) for k in set(self.called)}
                if any(v != (2 if k[0] == 'sx' else 1) for k, v in cnt.items()):
                    return 'ok', f'plugin call counts {cnt}'
            elif f == 'runauth':
                before = self.snapshot()
                self.called = []
                cache = {'sigfield1': b'\xaa'}
                cid = CONTRACTS[1][0]
                s1 = bytes.fromhex('0500' '06')                                   # msg x00 pop0
                s2 = bytes.fromhex('0500' '06' '0200') + bytes([3, len(cid)]) + cid + bytes.fromhex('55' '06' '01')  # ... push d0 push id invoke pop0 true
                ok = F.run_auth_scripts([s1, s1, s2], cache)
                used = sorted({i for (s2_, i) in self.called if s2_ == 'sx'})
                cnt = {k: self.called.count(k) for k in set(self.called)}
                if used != before['sx'] or any(v != 3 for v in cnt.values()):
                    return ('true' if ok else 'false'), f'run_auth_scripts used signature extensions {cnt} but active are {before["sx"]} (3 instructions)'
                if cache != {'sigfield1': b'\xaa'}:
                    return ('true' if ok else 'false'), 'run_auth_scripts modified the caller\'s cache dictionary'
                return ('true' if ok else 'false'), None
            elif f in ('compile', 'assemble'):
                src, expect = SOURCES[s]
                out = F and (P.compile_script(src) if f == 'compile' else P.assemble(P.get_symbols(src)))
                if expect is not None and out != expect:
                    return 'ok', f'{f}({src!r}) = {out.hex()} instead of {expect.hex()}'
            return 'ok', None
        except BaseException as e:
            if isinstance(e, (KeyboardInterrupt, SystemExit)):
                raise
            return 'error', None


_world = None


def _get_world():
    global _world
    if _world is None:
        _world = World()
    return _world


def _replay_chunk(recs):
    w = _get_world()
    out = []
    for r in recs:
        w.fresh()
        try:
            d = None
            for c in r['hist']:
                w.call(c)
            res, extra = w.call(r['call'])
            snap = w.snapshot()
            if res != r['res']:
                d = f"result {res}, specification {r['res']}"
            elif snap != r['post']:
                d = f"registry {snap}, specification {r['post']}"
            elif extra:
                d = extra
            out.append(d)
        finally:
            w.fresh()
    return out


def record_history(seed: int, n: int):
    """random history from the real API: [f, s, x, res, post] per call"""
    w = _get_world()
    r = random.Random(seed)
    w.fresh()
    calls = []
    extras = []
    try:
        for _ in range(n):
            f = r.choice(['add_plugin'] * 4 + ['remove_plugin'] * 3 + ['reset_plugins', 'add_contract', 'add_contract', 'remove_contract', 'runauth',
                          'add_iface', 'remove_iface', 'add_alias', 'run', 'run', 'compile', 'compile', 'assemble', 'assemble'])
            if f in ('add_plugin', 'remove_plugin'):
                c = {'f': f, 's': r.choice(['sx', 'ct']), 'x': r.randrange(1, 4)}
            elif f == 'reset_plugins':
                c = {'f': f, 's': r.choice(['sx', 'ct']), 'x': 0}
            elif f in ('add_contract', 'remove_contract', 'add_iface', 'remove_iface', 'add_alias'):
                c = {'f': f, 's': r.choice(['', 'lower']) if f == 'add_alias' else '', 'x': r.randrange(1, 4) if f in ('add_contract', 'remove_contract') else r.randrange(1, 3)}
            elif f in ('run', 'runauth'):
                c = {'f': f, 's': '', 'x': 0}
            else:
                c = {'f': f, 's': r.choice(list(SOURCES)), 'x': 0}
            res, extra = w.call(c)
            if extra:
                extras.append(extra)
            calls.append({**c, 'res': res, 'post': w.snapshot()})
    finally:
        w.fresh()
    return calls, extras


def _record_chunk(args):
    return [record_history(s, n) for s, n in args]


def main(tier: str, seed: int) -> int:
    rep = Report('C19', tier, seed)
    rep.rule = ('MC (Registry.tla): every reachable registry state (subsets of N plugins x 2 scopes, 2 contracts, 2 custom ' 'interfaces, 2 aliases; x the most recent observation call, so that every observation is explored after every other) '
                'interfaces, 2 aliases) x every call of {add/remove/reset plugin, add/remove contract, add/remove interface, '
                'add alias, run, compile_script / assemble(get_symbols()) of 5 sources}; VIEW hides the history, each '
                'transition is printed with a shortest history reaching its source state; invariants TypeOK, '
                'HistoryDetermines (registry = replay of the history under set semantics), ContractsChecked. Each '
                'transition is replayed in a fresh interpreter state: history then call; result, registry snapshot, which '
                'plugins / contracts a run used (recording plugins), compile output bytes, caller dictionaries unchanged. '
                'traces: random histories of 40 calls recorded from the real API and checked call by call by TLC.')
    rep.assumptions = ['aliases cannot be removed through the public API (active = added)',
                       'a fresh interpreter state is emulated by restoring module registries and clearing mutable default arguments']
    quick = tier == 'quick'
    nplug = 2 if quick else 3
    res = tlc.run_tlc('Registry', CFG % (nplug, 'mc'), workers=8, timeout=3000, heap='8g')
    rep.add_tlc(res, f'mc:NPlug={nplug}')
    if res.violated:
        rep.violation(f'TLC: {res.violated} in Registry', {'kind': 'mc', 'trace': res.errtrace[:3000]})
    else:
        rep.exhaustive = True
        recs = [r for r in res.records if isinstance(r, dict) and 'call' in r]
        n = 14 * 4
        chunks = [recs[i::n] for i in range(n)]
        with SafePool(14) as pool:
            outs = pool.map(_replay_chunk, chunks)
        seen = {}
        for ci, out in enumerate(outs):
            for j, d in enumerate(out):
                r = recs[ci + j * n]
                rep.case(json.dumps([r['hist'], r['call']]))
                if d is None:
                    rep.traces += 1
                else:
                    key = (r['call']['f'], d[:40])
                    seen[key] = seen.get(key, 0) + 1
                    if seen[key] <= 3:
                        rep.violation(f"history {[ (c['f'], c['s'], c['x']) for c in r['hist']]} then {r['call']}: {d}",
                                      {'kind': 'replay', 'record': r})
                    else:
                        rep.violations.append((d, ''))
        rep.sample({'transition': recs[len(recs) // 2]})
    # code -> spec
    nh = 300 if quick else 5000
    jobs = [(seed * 100003 + i, 40) for i in range(nh)]
    chunks = [jobs[i::28] for i in range(28)]
    with SafePool(14) as pool:
        hist = [hx for ch in pool.map(_record_chunk, chunks) for hx in ch]
    d = tlc.scratch_dir('registry')
    try:
        shards = 8
        paths = []
        for s in range(shards):
            p = os.path.join(d, f's{s}.json')
            with open(p, 'w') as f:
                json.dump([{'calls': c} for c, _ in hist[s::shards]], f)
            paths.append(p)
        with ThreadPoolExecutor(max_workers=shards) as ex:
            results = list(ex.map(lambda p: tlc.run_tlc('Registry', CFG % (3, 'trace'), workers=1, timeout=1800,
                                                        env={'TRACE_FILE': p}, heap='3g'), paths))
    finally:
        shutil.rmtree(d, ignore_errors=True)
    for s, res in enumerate(results):
        rep.add_tlc(res, 'trace')
        if res.violated:
            raise tlc.MachineryError('Registry trace: ' + res.violated + res.errtrace[:1500])
        part = hist[s::shards]
        verd = {r['tid']: r for r in res.records if isinstance(r, dict) and 'tid' in r}
        if len(verd) != len(part):
            raise tlc.MachineryError(f'Registry trace: {len(verd)} verdicts for {len(part)} histories\n' + res.output[-2500:])
        for i, (calls, extras) in enumerate(part, 1):
            rep.case(json.dumps(calls))
            v = verd[i]
            if v['ok'] and not extras:
                rep.traces += 1
            elif not v['ok']:
                c = calls[v['step'] - 1]
                rep.violation(f"recorded history rejected at call {v['step']} {c['f']}({c['s']},{c['x']}): implementation "
                              f"{c['res']} {c['post']}, specification {v['expres']} {v['exppost']}",
                              {'kind': 'trace', 'calls': calls[:v['step']]})
            else:
                rep.violation(f'recorded history: {extras[0]}', {'kind': 'trace', 'calls': calls})
    rep.sample({'recorded_history_prefix': hist[0][0][:5]})
    return rep.finish()


def replay(path: str) -> int:
    obj = json.load(open(path))
    if obj.get('kind') == 'replay':
        d = _replay_chunk([obj['record']])[0]
        print(d)
        return 1 if d else 0
    return 2
