"""C17 - adapter signatures are verifiable encryptions of a valid signature."""
import random, sys
from ..par import SafePool
from ..common import Report, REPO
from .. import scncheck
from ..gen.progs import push, op, b1
from ..ref import ed25519 as E
from ..ref.opsem import message

INV = ['ZeroTweakIsASig', 'CheckHonest', 'CheckFailsIfAltered', 'DecryptVerifies', 'ExtractRecovers', 'AdapterNotASig', 'F13Fails']
G = E.encode(E.B)
ONE = b'\x01' + bytes(31)


def _impl():
    if REPO not in sys.path:
        sys.path.insert(0, REPO)
    import tapescript.functions as F
    import tapescript.tools as T
    return F, T


def tweak(i: int, rng) -> bytes:
    if i == 0:
        return bytes(32)
    if i == 3:
        return ONE
    if i == 4:
        return E.sc_bytes(E.L - 1)
    return E.clamp(random.Random(f'tweak{i}/{rng}').randbytes(32))


def run(F, script, cache=None):
    try:
        _, stack, _ = F.run_script(script, cache or {})
        return stack.list()
    except BaseException as e:
        if isinstance(e, (KeyboardInterrupt, SystemExit)):
            raise
        return None


def nacl_verify(pk, m, sig):
    try:
        from nacl.signing import VerifyKey
        VerifyKey(pk).verify(m, sig)
        return True
    except Exception:
        return False


def triple(F, seed, m, t, alt, t_dec, ctor, other_seed, other_m, flipper=None):
    """(check, decrypted-verifies, extract) for one concrete case; flipper(name, bytes) alters one check input"""
    X = E.public_key(seed)
    if E.sc(t) % E.L == 0:
        # T = identity: the constructor must refuse it, and the check must not take a plain signature for an adapter
        sig = E.sign(seed, m)
        bad = ''
        for ident in (b'\x01' + bytes(31), b'\x01' + bytes(30) + b'\x80'):       # the identity, with and without the sign bit
            made = run(F, push(seed) + push(m) + push(ident) + op('MAKE_ADAPTER_SIG_PUBLIC'))
            chk = run(F, push(sig[32:]) + push(sig[:32]) + push(m) + push(ident) + push(X) + op('CHECK_ADAPTER_SIG'))
            if made is not None or chk == [b'\xff']:
                bad += ('make ' if made is not None else '') + ('check ' if chk == [b'\xff'] else '')
        if not bad:
            return ('refused', 'nosig', 'extract')
        return ('identity-tweak-accepted:' + bad, 'nosig', 'extract')
    T = E.base_mult_noclamp(t)
    if ctor == 'pub':
        st = run(F, push(seed) + push(m) + push(T) + op('MAKE_ADAPTER_SIG_PUBLIC'))
        if st is None or len(st) != 2:
            return ('nocheck', 'nosig', 'extract')
        R, sa = st
        # the adapter is also published in the cache (keys R, sa, T; tape flags default on): the same values as on the stack
        try:
            _, _, cch = F.run_script(push(seed) + push(m) + push(T) + op('MAKE_ADAPTER_SIG_PUBLIC'), {})
            for key, val in ((b'R', R), (b'sa', sa), (b'T', T)):
                if cch.get(key) not in (val, [val]):
                    return ('cache-export-of-%s-differs-from-the-adapter' % key.decode(), 'nosig', 'extract')
        except BaseException as e:
            if isinstance(e, (KeyboardInterrupt, SystemExit)):
                raise
    else:
        st = run(F, push(m) + push(t) + push(seed) + op('MAKE_ADAPTER_SIG_PRIVATE'))
        if st is None or len(st) != 3:
            return ('nocheck', 'nosig', 'extract')
        T2, R, sa = st
        if T2 != T:
            return ('wrong-T', 'nosig', 'extract')
    cX, cT, cm, cR, csa = X, T, m, R, sa
    if flipper is not None:
        vals = {'X': cX, 'T': cT, 'm': cm, 'R': cR, 'sa': csa}
        vals[alt] = flipper(alt, vals[alt])
        cX, cT, cm, cR, csa = vals['X'], vals['T'], vals['m'], vals['R'], vals['sa']
    elif alt == 'sa':
        csa = E.scalar_add(sa, ONE)
    elif alt == 'R':
        cR = E.point_add(R, G)
    elif alt == 'T':
        cT = E.point_add(T, G)
    elif alt == 'm':
        cm = other_m
    elif alt == 'X':
        cX = E.public_key(other_seed)
    st = run(F, push(csa) + push(cR) + push(cm) + push(cT) + push(cX) + op('CHECK_ADAPTER_SIG'))
    check = 'check' if st == [b'\xff'] else 'nocheck'
    st = run(F, push(sa) + push(R) + push(t_dec) + op('DECRYPT_ADAPTER_SIG'))
    if st is None or len(st) != 2:
        return (check, 'nosig', 'extract')
    RT, s = st
    # the decrypted signature is also published in the cache (keys RT and s, tape flags 7 / 9 default on): the same values
    try:
        _, _, cch = F.run_script(push(sa) + push(R) + push(t_dec) + op('DECRYPT_ADAPTER_SIG'), {})
        if cch.get(b'RT') not in (RT, [RT]) or cch.get(b's') not in (s, [s]):
            return (check, 'cache-export-differs-from-stack', 'extract')
    except BaseException as e:
        if isinstance(e, (KeyboardInterrupt, SystemExit)):
            raise
    ok_ref = E.verify(X, m, RT + s)
    ok_nacl = nacl_verify(X, m, RT + s)
    if ok_ref != ok_nacl:
        return (check, 'verifiers-disagree', 'extract')
    ext = E.sc(E.scalar_sub(s, sa)) % E.L == E.sc(E.clamp(t_dec)) % E.L
    return (check, 'sig' if ok_ref else 'nosig', 'extract' if ext else 'noextract')


def run_mc(k):
    F, _ = _impl()
    seeds = {1: b'\x11' * 32, 2: b'\x22' * 32}
    msgs = {1: b'first message', 2: b''}
    rng = f"{k['k']}{k['m']}"
    got = triple(F, seeds[k['k']], msgs[k['m']], tweak(k['t'], rng), k['alt'], tweak(k['d'], rng), k['ctor'],
                 seeds[3 - k['k']], msgs[3 - k['m']])
    return list(got), None


def known(case, got):
    if case.get('ctor') == 'prv' and (got == case.get('ascoded') or got == 'F13'):
        return 'F13-private-adapter'
    return None


def record_random(args):
    seed, count, bits = args
    F, T = _impl()
    out = []
    for j in range(count):
        r = random.Random(f'{seed}/{j}')
        sk = r.randbytes(32)
        m = r.randbytes(r.choice([0, 1, 32, 100, 512]))
        traw = r.randbytes(32) if r.random() < 0.8 else r.choice([ONE, E.sc_bytes(E.L - 1), b'\xff' * 32])
        t = E.clamp(traw)
        if E.sc(t) % E.L == 0:
            continue
        alt = r.choice(['none', 'none', 'sa', 'R', 'T', 'm', 'X'])
        dsame = r.random() < 0.6
        td = t if dsame else E.clamp(r.randbytes(32))
        ctor = 'pub' if r.random() < 0.95 else 'prv'
        flipper = None
        if alt != 'none' and r.random() < 0.7:      # single-bit corruption of one check input
            def flipper(name, b, r=r):
                if not b:
                    return b'\x01'
                i = r.randrange(len(b))
                return b[:i] + bytes([b[i] ^ (1 << r.randrange(8))]) + b[i + 1:]
        got = triple(F, sk, m, t, alt, td, ctor, r.randbytes(32), m + b'!', flipper)
        out.append({'alt': alt, 'dsame': dsame, 'ctor': ctor, 'got': list(got)})
        # the builders end to end (public tweak point)
        if j % 4 == 0:
            out.append(builders_case(F, T, r, sk, traw))
    return out


def builders_case(F, T, r, sk, traw):
    """lock / witness / decrypt builders: adapter witness satisfies the adapter lock; the decrypted signature
    satisfies the signature lock; the adapter itself and a wrong decryption do not.  Variants: the two-lock
    builder from the tweak point, the three-script builder from the tweak scalar, and the (deprecated)
    combined locks that check, decrypt and verify in one script."""
    t = E.clamp(traw)
    Tp = E.base_mult_noclamp(t)
    pk = E.public_key(sk)
    sf = {f'sigfield{i}': r.randbytes(r.choice([1, 8, 40])) for i in range(1, 9) if r.random() < 0.5} or {'sigfield1': b'x'}
    flags = r.choice(['00', '00', '01', '02', '05', '80', '0a', 'c0', '7f'])
    if r.random() < 0.1:
        sf = {'sigfield8': r.randbytes(9)}          # the last sigfield alone
        flags = r.choice(['00', '0a'])
    if int(flags, 16) and all(((int(flags, 16) >> (i - 1)) & 1) for i in range(1, 9) if f'sigfield{i}' in sf):
        flags = '00'
    variant = r.choice(['pub', 'prv', 'one_pub', 'one_prv'])
    alt = r.choice(['none', 'none', 'T', 'X', 'm'])
    dsame = r.random() < 0.6
    other_pk = E.public_key(r.randbytes(32))
    wrong_tw = r.randbytes(32)
    try:
        wit = T.make_adapter_witness(sk, Tp, sf, flags)
        cache = dict(sf)
        if alt == 'm':
            k = [k for k in sf if not (int(flags, 16) >> (int(k[-1]) - 1)) & 1][0]
            cache[k] = cache[k] + b'!'
        lpk = other_pk if alt == 'X' else pk
        if variant in ('one_pub', 'one_prv'):
            # one script: check_adapter_sig verify; decrypt with the pushed scalar; check_sig.  Accepts iff the
            # adapter checks AND the decryption verifies
            if variant == 'one_pub':
                lock = T.make_adapter_lock_pub(lpk, E.point_add(Tp, G) if alt == 'T' else Tp, flags)
            else:
                lock = T.make_adapter_lock_prv(lpk, r.randbytes(32) if alt == 'T' else traw, flags)
            w = push(t if dsame else E.clamp(wrong_tw)) + bytes(wit.bytes)
            ok = F.run_auth_scripts([w, bytes(lock.bytes)], cache)
            return {'alt': alt, 'dsame': dsame, 'ctor': 'pub', 'variant': variant, 'flags': flags, 'combined': True,
                    'got': ['accept' if ok else 'reject', '', '']}
        if variant == 'pub':
            l1, lock2 = T.make_adapter_locks_pub(lpk, E.point_add(Tp, G) if alt == 'T' else Tp, flags)
            _, lock2 = T.make_adapter_locks_pub(pk, Tp, flags)
            sig = T.decrypt_adapter(wit, traw if dsame else wrong_tw)
        else:
            l1, dec, lock2 = T.make_adapter_locks_prv(lpk, r.randbytes(32) if alt == 'T' else traw, flags)
            _, dec, lock2 = T.make_adapter_locks_prv(pk, traw if dsame else wrong_tw, flags)
            _, st, _ = F.run_script(bytes(wit.bytes) + bytes(dec.bytes), {})
            s_ = st.get()
            sig = st.get() + s_
        check = F.run_auth_scripts([bytes(wit.bytes), bytes(l1.bytes)], cache)
        if flags != '00':
            sig += bytes.fromhex(flags)
        ok = F.run_auth_scripts([push(sig), bytes(lock2.bytes)], dict(sf))
        raw = bytes(wit.bytes)           # push sa (32) push R (32): the adapter itself is not a signature
        sa, R = raw[2:34], raw[36:68]
        fake = R + sa + (bytes.fromhex(flags) if flags != '00' else b'')
        if F.run_auth_scripts([push(fake), bytes(lock2.bytes)], dict(sf)):
            return {'alt': alt, 'dsame': dsame, 'ctor': 'pub', 'variant': variant, 'flags': flags, 'combined': False,
                    'got': ['adapter-accepted-as-signature', '', '']}
        return {'alt': alt, 'dsame': dsame, 'ctor': 'pub', 'variant': variant, 'flags': flags, 'combined': False,
                'got': ['check' if check else 'nocheck', 'sig' if ok else 'nosig', 'extract']}
    except BaseException as e:
        if isinstance(e, (KeyboardInterrupt, SystemExit)):
            raise
        return {'alt': 'none', 'dsame': True, 'ctor': 'pub', 'variant': variant, 'flags': flags, 'combined': False,
                'got': [f'builder-raised-{type(e).__name__}', '', '']}


def flip_sweep(args):
    """every single-bit corruption of each of the five check inputs, for adapters chosen so that the edge
    encodings occur (top byte of sa equal to 0x00 and to 0x0f / 0x10, empty and long messages).  One case per
    (adapter, input): got = 'check' if ANY single-bit flip of that input still passed."""
    seed, count = args
    F, _ = _impl()
    out = []
    for j in range(count):
        r = random.Random(f'flip/{seed}/{j}')
        want_top = [0x00, None, 0x0f, None][j % 4]
        for attempt in range(400):
            sk = r.randbytes(32)
            m = r.randbytes(r.choice([0, 1, 32, 70]))
            t = E.clamp(r.randbytes(32))
            X, Tp = E.public_key(sk), E.base_mult_noclamp(t)
            st = run(F, push(sk) + push(m) + push(Tp) + op('MAKE_ADAPTER_SIG_PUBLIC'))
            if st is None or len(st) != 2:
                continue
            R, sa = st
            if want_top is None or (sa[31] == want_top if want_top == 0 else sa[31] >= want_top):
                break
        vals = {'X': X, 'T': Tp, 'm': m, 'R': R, 'sa': sa}
        base = run(F, push(sa) + push(R) + push(m) + push(Tp) + push(X) + op('CHECK_ADAPTER_SIG'))
        out.append({'alt': 'none', 'dsame': True, 'ctor': 'pub', 'sweep': True, 'top': sa[31], 'bit': -1,
                    'got': ['check' if base == [b'\xff'] else 'nocheck', 'sig', 'extract']})
        for name in ('sa', 'R', 'T', 'm', 'X'):
            b = vals[name]
            passed = -1
            for bit in range(8 * len(b)):
                v = dict(vals)
                v[name] = b[:bit // 8] + bytes([b[bit // 8] ^ (1 << (bit % 8))]) + b[bit // 8 + 1:]
                st = run(F, push(v['sa']) + push(v['R']) + push(v['m']) + push(v['T']) + push(v['X']) + op('CHECK_ADAPTER_SIG'))
                if st == [b'\xff']:
                    passed = bit
                    break
            if name == 'm' and not b:
                continue
            out.append({'alt': name, 'dsame': True, 'ctor': 'pub', 'sweep': True, 'top': sa[31], 'bit': passed,
                        'got': ['check' if passed >= 0 else 'nocheck', 'sig', 'extract']})
    return out


def main(tier: str, seed: int) -> int:
    rep = Report('C17', tier, seed)
    rep.rule = ('MC (Adapter.tla on SymCrypto.tla: scalars as linear combinations over atoms, hashes free constructors): every case '
                'signer x message x tweak in {two independent secrets, 1, L-1} x alteration of each of the five check inputs x '
                'decryption scalar in {0, each tweak}; laws CheckHonest, CheckFailsIfAltered, DecryptVerifies (<=> right tweak), '
                'ExtractRecovers, AdapterNotASig, and F13Fails (the implemented private-tweak construction deviates); every case '
                'concretised (real seeds, messages, scalars incl. 1 and L-1) through the four instructions; the decrypted '
                'signature is verified by the pure-Python RFC 8032 verifier and by PyNaCl. traces: random seeds, messages of '
                '0..512 bytes, random 32-byte tweaks (clamped by the builders), single-bit corruption of each check input; '
                'EVERY single-bit corruption of each of the five check inputs for adapters chosen to hit the edge encodings (top byte '
                'of sa 0x00 / >= 0x0f); and the lock / witness / decrypt builders end to end through run_auth_scripts - the two-lock '
                'builder from the tweak point, the three-script builder from the tweak scalar, and the combined one-script locks '
                '(accept iff the adapter checks and its decryption verifies) - under sigflags that do / do not mask present '
                'sigfields, judged by TLC.')
    rep.assumptions = ['symbolic algebra: claims hold up to hash collisions / discrete-log coincidences',
                       'the edge scalar 0 (T = identity) must be refused by the constructor and by the check: ZeroTweakIsASig shows an adapter for it would be a signature']
    quick = tier == 'quick'
    scncheck.mc(rep, 'Adapter', 'mc', INV, run_mc, known=known, workers=4)
    import multiprocessing as mp
    n = 6000 if quick else 40000
    with SafePool(14) as pool:
        cases = [c for ch in pool.map(record_random, [(seed * 41 + i, n // 28, 0) for i in range(28)]) for c in ch]
        sweeps = [c for ch in pool.map(flip_sweep, [(seed * 43 + i, 2 if quick else 12) for i in range(28)]) for c in ch]
    for c in cases + sweeps:
        c.setdefault('combined', False)
    scncheck.judge(rep, 'Adapter', [], cases, 'random adapter scenarios', known=known)
    scncheck.judge(rep, 'Adapter', [], sweeps, 'exhaustive single-bit corruption sweeps', known=known, shards=2)
    rep.extra['bit_sweeps'] = {'adapters': sum(1 for c in sweeps if c['alt'] == 'none'),
                               'with_sa_top_byte_zero': sum(1 for c in sweeps if c['alt'] == 'none' and c['top'] == 0)}
    return rep.finish()


def replay(path: str) -> int:
    import json
    obj = json.load(open(path))
    if obj.get('kind') == 'replay':
        got, _ = run_mc(obj['case'])
        print(got, 'expected', obj['case']['expect'])
        return 0 if got == obj['case']['expect'] else 1
    return 2
