"""C10 - integer and float encodings are exact inverses at every magnitude."""
import json, math, os, random, shutil, struct, sys
from concurrent.futures import ThreadPoolExecutor
from ..common import Report, REPO
from .. import tlc

MC_CFG = '''SPECIFICATION Spec
CONSTANTS
  Family = "%s"
  Emit = %s
INVARIANT InvLaws
INVARIANT EmitCase
INVARIANT TraceCheck
CHECK_DEADLOCK FALSE
'''


def _impl():
    if REPO not in sys.path:
        sys.path.insert(0, REPO)
    import tapescript.functions as F
    return F


def fval(x: float):
    """(class, [sign, odd significand, exponent]) of a Python float that is exactly a binary32 value"""
    s = 1 if math.copysign(1.0, x) < 0 else 0
    if math.isnan(x):
        return 'nan', [s, 0, 0]
    if math.isinf(x):
        return 'inf', [s, 0, 0]
    if x == 0:
        return 'zero', [s, 0, 0]
    p, q = abs(x).as_integer_ratio()
    e = -(q.bit_length() - 1)
    while p % 2 == 0:
        p //= 2
        e += 1
    cls = 'subnormal' if abs(x) < 2.0 ** -126 else 'normal'
    return cls, [s, p, e]


def mag(n: int):
    n = abs(n)
    return list(n.to_bytes((n.bit_length() + 7) // 8, 'big'))


def replay_record(F, r) -> str | None:
    try:
        if r['kind'] == 'dec':
            b = bytes(r['b'])
            n = (-1 if r['neg'] else 1) * int.from_bytes(bytes(r['mag']), 'big')
            got = F.bytes_to_int(b)
            if got != n:
                return f'bytes_to_int({b.hex()}) = {got}, spec {n}'
            if F.int_to_bytes(n) != bytes(r['min']):
                return f"int_to_bytes({n}) = {F.int_to_bytes(n).hex()}, spec {bytes(r['min']).hex()}"
            if F.bytes_to_bool(b) != any(b):
                return f'bytes_to_bool({b.hex()})'
        elif r['kind'] == 'enc':
            n = (-1 if r['neg'] else 1) * int.from_bytes(bytes(r['mag']), 'big')
            got = F.int_to_bytes(n)
            exp = bytes(r['b'])
            if got != exp:
                # beyond 2^53 the implementation may be one byte longer; TLC judges those (ValidEnc) in trace mode
                if abs(n) < 2 ** 53 or F.bytes_to_int(got) != n or len(got) > len(exp) + 1 or (got[0] >= 128) != (n < 0):
                    return f'int_to_bytes({n}) = {got.hex()}, spec {exp.hex()}'
            if F.bytes_to_int(exp) != n:
                return f'bytes_to_int({exp.hex()}) = {F.bytes_to_int(exp)}, spec {n}'
        elif r['kind'] == 'f32':
            b = bytes(r['b'])
            x = F.bytes_to_float(b)
            cls, val = fval(x)
            if cls != r['cls']:
                return f"bytes_to_float({b.hex()}) class {cls}, spec {r['cls']}"
            if cls not in ('nan',) and val != list(r['val']):
                return f"bytes_to_float({b.hex()}) = {val}, spec {r['val']}"
            back = F.float_to_bytes(x)
            if cls != 'nan' and back != b:
                return f'float_to_bytes(bytes_to_float({b.hex()})) = {back.hex()}'
            if cls == 'nan' and not math.isnan(struct.unpack('!f', back)[0]):
                return f'NaN {b.hex()} re-encoded to non-NaN {back.hex()}'
    except BaseException as e:      # decoding / encoding must be total
        return f"{r['kind']} {r}: raised {type(e).__name__}: {e}"
    return None


def gen_trace_cases(F, rng: random.Random, n: int, nk: int, maxbits: int) -> list:
    out = []

    def add_int(v):
        try:
            b = F.int_to_bytes(v)
            out.append({'k': 'i2b', 'neg': v < 0, 'mag': mag(v), 'b': list(b), 'back': [], 'cls': '', 'val': []})
            w = F.bytes_to_int(b)
            out.append({'k': 'b2i', 'neg': w < 0, 'mag': mag(w), 'b': list(b), 'back': [], 'cls': '', 'val': []})
        except BaseException as e:
            out.append({'k': 'i2b', 'neg': v < 0, 'mag': mag(v), 'b': [], 'back': [], 'cls': type(e).__name__, 'val': []})

    # integer instructions compute exact results at any magnitude that fits the item limit: results at both edges of
    # an m-byte item (and one step beyond) produced by ADD_INTS / SUBTRACT_INTS / MULT_INTS under stack_max_item_size = m
    def minimal(v):
        return v.to_bytes((v + (v < 0)).bit_length() // 8 + 1, 'big', signed=True)

    def push(b):
        return (bytes([2]) + b) if len(b) == 1 else (bytes([3, len(b)]) + b) if len(b) < 256 else (bytes([4]) + len(b).to_bytes(2, 'big') + b)

    for m in sorted(set([1, 2, 3, 7, 8, 9, 16, 31, 32, 33, 64, 128, 255, 256, 1024] + [rng.randrange(7, 1025) for _ in range(max(4, nk // 4))])):
        edge = 2 ** (8 * m - 1)
        for x in [edge - 3, edge - 2, edge - 1, edge, -edge + 1, -edge, -edge - 1]:
            for opc, a, b in ((14, x - 1, 1), (15, x - 1, -1), (16, x, 1)):
                # script: push b, push a (top), op 2.  ADD: (x-1) + 1; SUBTRACT: top minus the next = (x-1) - (-1); MULT: x * 1
                if max(len(minimal(a)), len(minimal(b))) > m:
                    continue
                script = push(minimal(b)) + push(minimal(a)) + bytes([opc, 2])
                try:
                    _, st, _ = F.run_script(script, {}, stack_max_item_size=m)
                    res = list(st.list()[-1]) if len(st) == 1 else []
                    cls = ''
                except BaseException as e:
                    if isinstance(e, (KeyboardInterrupt, SystemExit)):
                        raise
                    res, cls = [], type(e).__name__
                out.append({'k': 'fit', 'lim': m, 'neg': x < 0, 'mag': mag(x), 'b': res, 'back': [], 'cls': cls, 'val': [opc]})
    ks = sorted(set([rng.randrange(0, 16385) for _ in range(nk)] + [7, 8, 15, 16, 31, 32, 52, 53, 54, 63, 64, 65, 1023, 1024, 16384]))
    for k in ks:
        for d in range(-3, 4):
            for s in (1, -1):
                add_int(s * (2 ** k + d))
    for _ in range(n // 2):
        bits = rng.choice([b for b in [8, 16, 53, 64, 100, 256, 1000, 4096, 8192] if b <= maxbits])
        v = rng.getrandbits(rng.randrange(1, bits + 1))
        add_int(v if rng.random() < 0.5 else -v)
    for _ in range(n // 2):          # arbitrary byte strings decode totally
        b = rng.randbytes(rng.choice([1, 2, 3, 8, 9, 33, 200]))
        if rng.random() < 0.3:
            b = rng.choice([b'\x00', b'\xff']) * rng.randrange(1, 4) + b
        try:
            w = F.bytes_to_int(b)
            out.append({'k': 'b2i', 'neg': w < 0, 'mag': mag(w), 'b': list(b), 'back': [], 'cls': '', 'val': []})
        except BaseException as e:
            out.append({'k': 'b2i', 'neg': False, 'mag': [1, 2, 3], 'b': list(b), 'back': [], 'cls': type(e).__name__, 'val': []})
    for e in range(256):             # floats: every exponent, random mantissas, both signs
        for _ in range(max(1, n // 600)):
            b = struct.pack('!I', (rng.randrange(2) << 31) | (e << 23) | rng.getrandbits(23))
            try:
                x = F.bytes_to_float(b)
                cls, val = fval(x)
                out.append({'k': 'b2f', 'neg': False, 'mag': [], 'b': list(b), 'back': [], 'cls': cls, 'val': val})
                out.append({'k': 'f2b', 'neg': False, 'mag': [], 'b': list(b), 'back': list(F.float_to_bytes(x)), 'cls': '', 'val': []})
            except BaseException as ex:
                out.append({'k': 'b2f', 'neg': False, 'mag': [], 'b': list(b), 'back': [], 'cls': type(ex).__name__, 'val': [9, 9, 9]})
    return out


def _trace_shard(args):
    path = args
    return tlc.run_tlc('Codec', MC_CFG % ('trace', 'FALSE'), workers=1, timeout=1800, env={'TRACE_FILE': path}, heap='3g')


def main(tier: str, seed: int) -> int:
    rep = Report('C10', tier, seed)
    rep.rule = ('MC (Codec.tla on BigInt limb arithmetic): all 65,792 one- and two-byte strings (DecLaw: total decoding, '
                're-encoding minimal and inverse), all integers in [-2^17, 2^17] and 2^k + d for k <= 512, |d| <= 3, both '
                'signs (EncLaw: Dec(Enc(n)) = n, sign bit, minimality), 512 sign/exponent classes x 62 mantissa patterns '
                '(F32Law: the value <<sign, odd significand, exponent>> obtained by bit slicing re-encodes to the same '
                'pattern); every case replayed through int_to_bytes / bytes_to_int / bytes_to_bool / bytes_to_float / '
                'float_to_bytes. traces: 2^k + d for k up to 16384, random integers up to 8192 bits, random byte strings, '
                'float patterns for every exponent, logged from the implementation as sign + magnitude bytes / exact '
                'dyadic values and judged by TLC (ValidEnc, DecS, FClass, FValue). non-trivial = distinct case.')
    rep.rule += (' Instruction level: ADD / SUBTRACT / MULT / DIV / MOD (stack and tape-operand forms, signed, zero, padded '
                 'operands), SIZE, LESS, LESS_OR_EQUAL, INT_TO_FLOAT, FLOAT_TO_INT on 2^k + d up to 8192 bits and random big integers '
                 'are recorded from run_script and validated step by step against TapeVM (all clauses).')
    rep.assumptions = ['a valid encoding may be one byte longer than minimal (the property does not require minimality; '
                       'the implementation sizes with a floating-point log2 above 2^53)',
                       'NaN payload bits are platform behaviour and are not compared']
    F = _impl()
    quick = tier == 'quick'
    for fam in ['bytes12', 'pow2', 'f32', 'ints17']:
        res = tlc.run_tlc('Codec', MC_CFG % (fam, 'TRUE'), workers=4, timeout=1800, heap='6g')
        rep.add_tlc(res, f'mc:{fam}')
        if res.violated:
            rep.violation(f'TLC: {res.violated} in Codec family {fam}', {'kind': 'mc', 'trace': res.errtrace[:3000]})
            continue
        bad = 0
        for r in res.records:
            rep.case(json.dumps(r, sort_keys=True))
            d = replay_record(F, r)
            if d:
                bad += 1
                rep.violation(f'Codec/{fam}: {d}', {'kind': 'replay', 'family': fam, 'record': r})
            else:
                rep.traces += 1
        rep.sample({'family': fam, 'case': res.records[len(res.records) // 3]})
        rep.extra.setdefault('families', {})[fam] = {'cases': len(res.records), 'mismatches': bad}
    rep.exhaustive = True
    # code -> spec
    rng = random.Random(seed)
    cases = gen_trace_cases(F, rng, *((1200, 12, 1000) if quick else (40000, 600, 8192)))
    d = tlc.scratch_dir('codec')
    try:
        shards = 12
        paths = []
        for s in range(shards):
            p = os.path.join(d, f's{s}.json')
            with open(p, 'w') as f:
                json.dump(cases[s::shards], f)
            paths.append(p)
        with ThreadPoolExecutor(max_workers=shards) as ex:
            results = list(ex.map(_trace_shard, paths))
    finally:
        shutil.rmtree(d, ignore_errors=True)
    for s, res in enumerate(results):
        rep.add_tlc(res, 'trace')
        if res.violated:
            raise tlc.MachineryError('Codec trace: ' + res.violated + res.errtrace[:2000])
        part = cases[s::shards]
        badset = {r['bad'] for r in res.records if isinstance(r, dict) and 'bad' in r}
        for i, cse in enumerate(part, 1):
            rep.case(json.dumps(cse, sort_keys=True))
            if i in badset or (cse['cls'] and cse['cls'][0].isupper() and cse['cls'] not in ('',) and cse['k'] in ('i2b', 'b2i', 'b2f') and cse['cls'].endswith('Error')):
                rep.violation(f"implementation case rejected by Codec.tla: {json.dumps(cse)[:300]}", {'kind': 'trace', 'case': cse})
            else:
                rep.traces += 1
    rep.sample({'trace_case': cases[len(cases) // 2]})
    # integer instructions at any magnitude: recorded runs of the integer / conversion instructions on boundary and huge
    # operands, validated instruction by instruction against TapeVM (limb arithmetic; reference integers for big division)
    from .. import vmcheck
    n_ops = 1500 if quick else 20000
    traces = vmcheck.record([('vf.gen.runs:make_intops', seed * 1_000_003 + i, {}) for i in range(n_ops)])
    vmcheck.check_traces(rep, traces, 'integer instructions on boundary / huge operands (make_intops)')
    return rep.finish()


def replay(path: str) -> int:
    F = _impl()
    obj = json.load(open(path))
    if obj.get('kind') == 'replay':
        d = replay_record(F, obj['record'])
        print(d)
        return 1 if d else 0
    print('re-run ./check C10 to re-validate trace cases')
    return 2
