"""./check selftest - demonstrate that the specification is bound to the implementation.

Recorded executions of the real interpreter are validated by TLC (must be accepted); then copies in which ONE
recorded field was corrupted (a pushed byte, the pointer, the exception class, the kept-prefix length) or ONE event
was dropped are validated again and every one of them must be rejected.  A trace specification that constrained
nothing (or only the length) would accept them.  Exit 0 iff all originals are accepted and all corruptions rejected.
"""
from __future__ import annotations
import copy, random
from . import vmcheck, vmtrace


def _corruptions(t: dict, r: random.Random) -> list:
    out = []
    evs = t['ev']
    idx = [i for i, e in enumerate(evs) if e['k'] == 'op']
    if not idx:
        return out
    # one byte of a pushed item
    cand = [i for i in idx if evs[i]['pushed'] and evs[i]['pushed'][-1]]
    if cand:
        c = copy.deepcopy(t)
        i = r.choice(cand)
        c['ev'][i]['pushed'][-1][0] ^= 1
        c['ev'][i]['top'] = list(c['ev'][i]['pushed'][-1])
        out.append(('pushed byte', c))
    # the pointer after an instruction
    c = copy.deepcopy(t)
    i = r.choice(idx)
    c['ev'][i]['pc'] += 1
    out.append(('pointer', c))
    # the exception class
    c = copy.deepcopy(t)
    i = r.choice(idx)
    c['ev'][i]['exc'] = 'ValueError' if c['ev'][i]['exc'] != 'ValueError' else ''
    out.append(('exception class', c))
    # how much of the stack the instruction kept
    cand = [i for i in idx if evs[i]['keep'] > 0]
    if cand:
        c = copy.deepcopy(t)
        i = r.choice(cand)
        c['ev'][i]['keep'] -= 1
        out.append(('kept prefix', c))
    # one event dropped (a removed hook)
    if len(idx) > 1:
        c = copy.deepcopy(t)
        del c['ev'][r.choice(idx)]
        out.append(('dropped event', c))
    return out


def main(args) -> int:
    r = random.Random(7)
    jobs = [('vf.gen.runs:make_run', 5000 + i, {}) for i in range(60)] + \
           [('vf.gen.builders:make_builder_run', i, {}) for i in range(29)]
    traces = [t for t in vmcheck.record(jobs) if len(t['ev']) > 3 and not t['outcome'].get('truncated')]
    verd, _ = vmtrace.validate(traces, shards=8)
    accepted = [t for i, t in enumerate(traces) if verd[i]['ok'] and not verd[i]['failures']]
    print(f'originals: {len(traces)} recorded executions, {len(accepted)} accepted by TapeVMTrace.tla')
    if len(accepted) < len(traces) * 0.9:
        print('SELFTEST FAILED: recorded executions of the unchanged implementation are not accepted')
        return 1
    corrupted = []
    for t in accepted:
        for kind, c in _corruptions(t, r):
            c['id'] = f"{t['id']}#{kind}"
            corrupted.append((kind, c))
    verd2, _ = vmtrace.validate([c for _, c in corrupted], shards=8)
    by = {}
    missed = []
    for i, (kind, c) in enumerate(corrupted):
        rejected = bool(verd2[i]['failures']) or not verd2[i]['ok']
        a, b = by.get(kind, (0, 0))
        by[kind] = (a + 1, b + (1 if rejected else 0))
        if not rejected:
            missed.append(c['id'])
    for kind, (n, rej) in sorted(by.items()):
        print(f'  corrupted {kind:16s}: {rej} of {n} rejected')
    if missed:
        print('SELFTEST FAILED: corrupted traces accepted:', missed[:5])
        return 1
    print('selftest ok: every corrupted or shortened trace was rejected')
    return 0
