------------------------------- MODULE Locks -------------------------------
(***************************************************************************)
(* Signature and commitment lock builders (C13): exactly the intended      *)
(* holder can unlock.  Each lock is modelled operationally on symbolic     *)
(* stack items, following the instructions of its script:                  *)
(*    sig(signer, covers, flag)  a signature made by `signer` over the     *)
(*                               sigfields as they were at signing          *)
(*    key(k)  a public key      script(s)  a script      ssig(signer, s)   *)
(*                               a signature over script s                  *)
(*    bool(b)                                                               *)
(* with ideal signatures (SigMsg.tla).  A case pairs a lock with the       *)
(* witness of any builder, under perturbations of key, covered /           *)
(* excluded sigfields, flag, committed / surrogate script and surrogate    *)
(* signer.                                                                  *)
(***************************************************************************)
EXTENDS Integers, Sequences, FiniteSets, Json, IOUtils, TLC

CONSTANTS Family, Emit, MaxWit
VARIABLE c

\* ---- items --------------------------------------------------------------------------------------
Sig(signer, fl) == [t |-> "sig", who |-> signer, x |-> fl]       \* x: flag class "f0" | "perm" | "nonperm"
Key(k) == [t |-> "key", who |-> k, x |-> ""]
Scr(s) == [t |-> "script", who |-> s, x |-> ""]                  \* who: script id
SSig(signer, s) == [t |-> "ssig", who |-> signer, x |-> s]       \* signature over script s (x: script id as string)
Bool(b) == [t |-> "bool", who |-> IF b THEN 1 ELSE 0, x |-> ""]
Truthy(i) == i.t # "bool" \/ i.who = 1

LockKinds == {"ss", "ss2", "ms11", "sh", "gr", "ga"}       \* single sig (2 layouts), 1-of-1 multisig, script hash, graftroot, graftap
WitKinds == {"ss", "ss2", "sh", "grkey", "grsur", "gakey", "gascr"}
Lk == 1                          \* the lock's key
\* scripts: 1 = the committed / surrogate script "true"; 2 = another script "true"; 3 = the committed script but "false"
ScriptVerdict(s) == s \in {"1", "2"}

\* ---- a case ------------------------------------------------------------------------------------------
\* [lock, wit, wkey (1 = lock key, 2 = other), fields ("same" | "covered" | "excluded"), fl, script ("1" | "2" | "3"),
\*  sursig (1 | 2: who signed the surrogate script)]
Cases(z) == [lock : LockKinds, wit : WitKinds, wkey : {1, 2}, fields : {"same", "covered", "excluded"},
             fl : {"f0", "perm", "nonperm"}, script : {"1", "2", "3"}, sursig : {1, 2}]

\* the witness's stack, bottom first
Witness(x) ==
    CASE x.wit = "ss"    -> <<Sig(x.wkey, x.fl)>>
      [] x.wit = "ss2"   -> <<Sig(x.wkey, x.fl), Key(x.wkey)>>
      [] x.wit = "sh"    -> <<Scr(x.script)>>
      [] x.wit = "grkey" -> <<Sig(x.wkey, x.fl), Bool(FALSE)>>
      [] x.wit = "grsur" -> <<SSig(x.sursig, "1"), Scr(x.script), Bool(TRUE)>>      \* signature made over script 1
      [] x.wit = "gakey" -> <<[Sig(x.wkey, x.fl) EXCEPT !.t = "rootsig"]>>          \* signature under the taproot root of the lock key
      [] x.wit = "gascr" -> <<SSig(x.sursig, "1"), Scr(x.script), Scr("graft"), Key(x.wkey)>>

\* ---- ideal signature check -------------------------------------------------------------------------------
\* result of CHECK_SIG(key k, item i) given how the sigfields changed since signing
CheckSig(k, i, fields) ==
    IF i.t \notin {"sig"} THEN "error"                    \* not a 64/65 byte item
    ELSE IF i.x = "nonperm" THEN "error"
    ELSE IF i.who = k /\ (fields = "same" \/ (fields = "excluded" /\ i.x = "perm")) THEN "true" ELSE "false"
\* (the permitted flag excludes the field that is changed in the "excluded" cases; with no flag every field is covered)

\* ---- the locks, as their scripts execute ---------------------------------------------------------------
\* each returns <<verdict of the final check ("true"/"false"/"error"), items left below>>
Top(s) == s[Len(s)]
Pop(s) == SubSeq(s, 1, Len(s) - 1)
RunScript(sid, st) == \* evaluating a committed / surrogate script: it pushes its verdict
    IF ScriptVerdict(sid) THEN <<"true", st>> ELSE <<"false", st>>

LockSS(st, f) == IF st = <<>> THEN <<"error", st>> ELSE <<CheckSig(Lk, Top(st), f), Pop(st)>>
LockSS2(st, f) == \* dup shake256; push H(pk); equal_verify; check_sig
    IF Len(st) < 2 THEN <<"error", st>>
    ELSE IF Top(st) # Key(Lk) THEN <<"error", Pop(st)>>
    ELSE <<CheckSig(Lk, st[Len(st) - 1], f), SubSeq(st, 1, Len(st) - 2)>>
LockSH(st) == \* dup shake256; push H(script); equal_verify; eval
    IF st = <<>> THEN <<"error", st>>
    ELSE IF Top(st) # Scr("1") /\ Top(st) # Scr("3") THEN <<"error", Pop(st)>>       \* the lock commits to script 1 (or its "false" twin 3)
    ELSE RunScript(Top(st).who, Pop(st))
\* graftroot: if (top) { dup; swap 1 2; key check_sig_stack verify; eval } else { key check_sig }
LockGR(st, f) ==
    IF st = <<>> THEN <<"error", st>>
    ELSE IF Truthy(Top(st))
         THEN LET s2 == Pop(st) IN
              IF Len(s2) < 2 THEN <<"error", s2>>
              ELSE LET scr == Top(s2) sg == s2[Len(s2) - 1] IN
                   \* CHECK_SIG_STACK(key, message = script bytes, signature)
                   IF sg.t \notin {"ssig", "sig"} THEN <<"error", s2>>
                   ELSE IF ~(sg.t = "ssig" /\ sg.who = Lk /\ scr.t = "script" /\ sg.x = scr.who) THEN <<"error", SubSeq(s2, 1, Len(s2) - 2)>>
                   ELSE RunScript(scr.who, SubSeq(s2, 1, Len(s2) - 2))
         ELSE LET s2 == Pop(st) IN IF s2 = <<>> THEN <<"error", s2>> ELSE <<CheckSig(Lk, Top(s2), f), Pop(s2)>>
\* graftap: taproot lock committing to the graftroot script of the lock key
LockGA(st, f) ==
    IF st = <<>> THEN <<"error", st>>
    ELSE IF Top(st).t = "key"                                   \* script path: (script, key) must recompute to the root
         THEN IF Len(st) < 2 THEN <<"error", st>>
              ELSE IF ~(Top(st) = Key(Lk) /\ st[Len(st) - 1] = Scr("graft")) THEN <<"false", SubSeq(st, 1, Len(st) - 2)>>
              ELSE \* the committed graftroot script: dup; swap; key check_sig_stack verify; eval
                   LET s2 == SubSeq(st, 1, Len(st) - 2) IN
                   IF Len(s2) < 2 THEN <<"error", s2>>
                   ELSE LET scr == Top(s2) sg == s2[Len(s2) - 1] IN
                        IF ~(sg.t = "ssig" /\ sg.who = Lk /\ scr.t = "script" /\ sg.x = scr.who) THEN <<"error", SubSeq(s2, 1, Len(s2) - 2)>>
                        ELSE RunScript(scr.who, SubSeq(s2, 1, Len(s2) - 2))
         ELSE \* key path: signature under the root
              IF Top(st).t = "rootsig" THEN <<CheckSig(Lk, [Top(st) EXCEPT !.t = "sig"], f), Pop(st)>>
              ELSE IF Top(st).t = "sig" THEN <<(IF CheckSig(Lk, Top(st), f) = "error" THEN "error" ELSE "false"), Pop(st)>>   \* signed by the internal key, not the root
              ELSE <<"error", Pop(st)>>

LockOf(x, st) ==
    CASE x.lock = "ss"   -> LockSS(st, x.fields)
      [] x.lock = "ss2"  -> LockSS2(st, x.fields)
      [] x.lock = "ms11" -> LockSS(st, x.fields)          \* 1-of-1 multisig: one signature by the one listed key
      [] x.lock = "sh"   -> LockSH(st)
      [] x.lock = "gr"   -> LockGR(st, x.fields)
      [] x.lock = "ga"   -> LockGA(st, x.fields)
Accept(x) == LET r == LockOf(x, Witness(x)) IN r[1] = "true" /\ r[2] = <<>>

\* ---- the declarative statement: who is intended to unlock -----------------------------------------------------
SigIntended(x) == x.wkey = Lk /\ x.fl # "nonperm" /\ (x.fields = "same" \/ (x.fields = "excluded" /\ x.fl = "perm"))
Intended(x) ==
    CASE x.lock = "ss" /\ x.wit = "ss" -> SigIntended(x)
      [] x.lock = "ms11" /\ x.wit = "ss" -> SigIntended(x)
      [] x.lock = "ss2" /\ x.wit = "ss2" -> SigIntended(x)
      [] x.lock = "sh" /\ x.wit = "sh" -> x.script = "1"
      [] x.lock = "gr" /\ x.wit = "grkey" -> SigIntended(x)
      [] x.lock = "gr" /\ x.wit = "grsur" -> x.sursig = Lk /\ x.script = "1"
      [] x.lock = "ga" /\ x.wit = "gakey" -> SigIntended(x)
      [] x.lock = "ga" /\ x.wit = "gascr" -> x.sursig = Lk /\ x.script = "1" /\ x.wkey = Lk
      [] OTHER -> FALSE

\* ---- m-of-n multisignature locks (family "ms") -------------------------------------------------------
\* make_multisig_lock(keys 1..n, m, allowed flags) against the concatenation of single-signature witnesses
\* [who, fl]: who = a listed key 1..n or the outsider 9; the witness lists them bottom first.  The lock
\* pushes the n keys and runs CHECK_MULTISIG m n, modelled as the greedy matcher it is: signatures taken
\* from the top, each compared with the keys still unused; a verifying key is consumed; a signature with a
\* non-permitted flag raises at its first comparison; byte-identical signatures count once.
Outsider == 9
MsSig(n) == [who : (1..n) \cup {Outsider}, fl : {"f0", "perm", "nonperm"}]
MsShapes == {<<1, 1>>, <<1, 2>>, <<2, 2>>, <<2, 3>>, <<3, 3>>}
MsLens(m) == {k \in {m - 1, m, m + 1} : k >= 0 /\ k <= MaxWit}
MsCases(z) == UNION { UNION { [lock : {"ms"}, m : {mn[1]}, n : {mn[2]}, sigs : [1..k -> MsSig(mn[2])],
                               fields : {"same", "covered", "excluded"}] : k \in MsLens(mn[1]) } : mn \in MsShapes }
MsValid(sg, k, f) == sg.who = k /\ sg.fl # "nonperm" /\ (f = "same" \/ (f = "excluded" /\ sg.fl = "perm"))
\* greedy matcher over the m signatures taken (top first); state: remaining keys, confirmed signatures
RECURSIVE MsMatch(_, _, _, _, _)
MsMatch(sigs, i, rem, conf, f) ==
    IF i > Len(sigs) THEN IF Cardinality(conf) = Len(sigs) THEN "true" ELSE "false"
    ELSE LET sg == sigs[i] IN
         IF rem = {} THEN MsMatch(sigs, i + 1, rem, conf, f)
         ELSE IF sg.fl = "nonperm" THEN "error"
         ELSE IF \E k \in rem : MsValid(sg, k, f)
              THEN MsMatch(sigs, i + 1, rem \ {sg.who}, conf \cup {sg}, f)
              ELSE MsMatch(sigs, i + 1, rem, conf, f)
MsAccept(x) ==
    LET L == Len(x.sigs) IN
    IF L < x.m THEN FALSE                                     \* CHECK_MULTISIG runs out of items: error
    ELSE LET taken == [j \in 1..x.m |-> x.sigs[L + 1 - j]]     \* top first
         IN MsMatch(taken, 1, 1..x.n, {}, x.fields) = "true" /\ L = x.m      \* nothing may be left under the verdict
\* declarative: exactly m signatures, each valid for the sigfields as they are, by m different listed keys
MsIntended(x) ==
    /\ Len(x.sigs) = x.m
    /\ \A i \in 1..x.m : x.sigs[i].who \in 1..x.n /\ MsValid(x.sigs[i], x.sigs[i].who, x.fields)
    /\ \A i, j \in 1..x.m : i # j => x.sigs[i].who # x.sigs[j].who
MsSigners(x) == {x.sigs[i].who : i \in {j \in 1..Len(x.sigs) : x.sigs[j].who \in 1..x.n}}

TraceLog == JsonDeserialize(IOEnv.TRACE_FILE)
Init == IF Family = "trace" THEN c \in {[lock |-> "t", i |-> i] : i \in 1..Len(TraceLog)}
        ELSE IF Family = "ms" THEN c \in MsCases(0) ELSE c \in Cases(0)
Next == UNCHANGED c
Spec == Init /\ [][Next]_c

NotT == c.lock \notin {"t", "ms"}
IsMs == c.lock = "ms"
\* m-of-n: the greedy matcher accepts exactly the declarative quorum; one holder never makes a quorum of 2
MsAcceptIffIntended == IsMs => (MsAccept(c) <=> MsIntended(c))
MsFewerHoldersRejected == IsMs /\ Cardinality(MsSigners(c)) < c.m => ~MsAccept(c)
\* operational model of every lock = declarative intention, for every witness of every builder
AcceptIffIntended == NotT => (Accept(c) <=> Intended(c))
\* corollaries named in the property
OtherKeyRejected == NotT /\ c.wkey # Lk /\ c.wit \in {"ss", "ss2", "grkey", "gakey", "gascr"} => ~Accept(c)
SurrogateBound == NotT /\ c.wit \in {"grsur", "gascr"} /\ (c.sursig # Lk \/ c.script # "1") => ~Accept(c)

Out == [lock |-> c.lock, wit |-> c.wit, wkey |-> c.wkey, fields |-> c.fields, fl |-> c.fl, script |-> c.script, sursig |-> c.sursig,
        expect |-> IF Accept(c) THEN "true" ELSE "false"]
MsOut == [lock |-> "ms", m |-> c.m, n |-> c.n, sigs |-> c.sigs, fields |-> c.fields, expect |-> IF MsAccept(c) THEN "true" ELSE "false"]
EmitCase == ~Emit \/ c.lock = "t" \/ PrintT(ToJson(IF IsMs THEN MsOut ELSE Out))
TraceCheck == c.lock # "t" \/ LET r == TraceLog[c.i] IN
              IF r.lock = "ms"
              THEN LET x == [lock |-> "ms", m |-> r.m, n |-> r.n, sigs |-> r.sigs, fields |-> r.fields]
                   IN PrintT(ToJson([i |-> c.i, v |-> IF r.got = (IF MsAccept(x) THEN "true" ELSE "false") THEN "ok" ELSE "verdict"]))
              ELSE LET
                          x == [lock |-> r.lock, wit |-> r.wit, wkey |-> r.wkey, fields |-> r.fields, fl |-> r.fl, script |-> r.script, sursig |-> r.sursig]
                      IN PrintT(ToJson([i |-> c.i, v |-> IF r.got = (IF Accept(x) THEN "true" ELSE "false") THEN "ok" ELSE "verdict"]))
=============================================================================
