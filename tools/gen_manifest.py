#!/usr/bin/env python3
"""Regenerates /verif/MANIFEST.json from the table below (kept in one place so that
the manifest is always valid and in step with the drivers that exist)."""
import json, os

ROOT = os.path.dirname(os.path.dirname(os.path.abspath(__file__)))
VM_NOTE = ('Trusted: TLC/SANY + CommunityModules, CPython, the harness wrappers (observe.py), the reference '
           'primitives (hashlib, pure-Python Ed25519 cross-checked with PyNaCl, struct float32, Python int). '
           'Exhaustive inside the stated family bounds; beyond them seeded generation.')

CHECKS = {
    'C01': dict(engine='TapeVM', tech='TLA+ spec (TapeVM) model-checked with TLC over auth script-list families + replay of every TLC behaviour into run_auth_scripts + TLC trace validation of recorded runs',
                text='TLC explores every <witness.., lock> list of the auth1/auth2/auth3/raw families and checks NoSkip / TopAtBoundary / VerdictExact on every state; each explored behaviour is replayed through the real run_auth_scripts (verdict, executed-instruction sequence, final state must agree), and thousands of generated authorization runs are recorded instruction by instruction and validated by TLC against the same transition function.',
                ref='5 C01'),
    'C06': dict(engine='TapeVM', tech='TLA+ spec (TapeVM, all 92 ops + NOPs) with TLC: exhaustive control-flow family + replay, and step-by-step TLC trace validation of generated programs over the full opcode table',
                text='The specification is the oracle for every instruction: stack / tape / cache / flag / frame effects are computed by TLC from the spec for each recorded step and compared with the implementation; data primitives the spec does not evaluate (hashes, Ed25519, float32, big multiplication) come from independent references keyed by arguments the spec computes.',
                ref='5 C06'),
    'C07': dict(engine='TapeVM', tech='TLA+ spec (TapeVM) with TLC: exhaustive resource-hungry family x 27 limit triples with bound invariants + replay, and TLC trace validation with in-instruction high-water marks',
                text='Bound invariants (stack items, item size, pointer range, call depth, loop iterations) are checked by TLC on every state of every program of the limits family under all 27 small limit triples, every behaviour is replayed through the implementation, and generated resource-hungry runs at small and realistic limits are validated step by step with recording-deque high-water marks, allocation requests and exception classes.',
                ref='5 C07'),
    'C08': dict(engine='TapeVM', tech='TLA+ spec (TapeVM) with TLC: exhaustive cache-writer family with CfgFrozen action property + replay, and TLC trace validation with per-step string-key comparison',
                text='In the specification the embedder-owned string-keyed cache is immutable configuration (action property CfgFrozen over every transition of the cache family); conformance binds that to the code: every replayed behaviour and every step of every recorded run compares all string keys by value and type.',
                ref='5 C08'),
}
CHECKS['C09'] = dict(engine='TapeVM', tech='TLA+ spec (TapeVM) with TLC: exhaustive context x probe x configuration family with ConfigUniform / InvEmbedderFlags / FlagsOnlyByFlagOps / PluginOnce + replay with real flags, counting plugins and contracts, and TLC trace validation of per-frame configuration',
                text='Every nesting of the block constructs (depth bound) around 17 probe sequences, under the embedder settings that switch each probed behaviour, is explored by TLC with the uniformity invariants and replayed through run_script with real additional_flags / plugins / contracts (cache effects, plugin call counts, outcomes); recorded runs under random configurations are validated per sub-tape entry (visible plugins / contracts, effective flag table, call count).',
                ref='5 C09')
CHECKS['C20'] = dict(engine='TapeVM', tech='TLA+ specs (TapeVM NopExact family; SoftFork product machine) with TLC + replay with tools.add_soft_fork installed / not installed + TLC trace validation',
                text='NopExact is checked on all 164 codes x 256 count bytes x 4 stack depths; SoftFork.tla runs a forked and an unforked VM in lockstep over all small programs x fork predicates x codes and checks Simulation / ForkImpliesOld; every behaviour of both models is replayed in the real VM (with and without the fork installed).',
                ref='5 C20')
PURE_NOTE = ('Trusted: TLC/SANY + CommunityModules, CPython, the reference primitives, the concretisation of abstract scenarios into real inputs. Exhaustive inside the stated grids; beyond them seeded generation judged by TLC.')
CHECKS['C10'] = dict(engine='Codec', tech='TLA+ spec (Codec.tla on BigInt limb arithmetic) with TLC: exhaustive inverse laws on all 1-2 byte strings, [-2^17, 2^17], 2^k+d, float32 classes + replay through the codec functions + TLC judging of recorded large cases',
                text='The encodings are specified on byte sequences with limb arithmetic (TLC integers are 32 bit); TLC checks the inverse laws exhaustively on the stated families and prints each case with the specified encoding, which is replayed through int_to_bytes / bytes_to_int / float_to_bytes / bytes_to_float; values up to 16384 bits and float patterns of every exponent are recorded from the implementation and judged by TLC (ValidEnc / DecS / FValue).',
                ref='5 C10', note=PURE_NOTE)
CHECKS['C16'] = dict(engine='Timelock', tech='TLA+ spec (Timelock.tla = TapeVM instruction semantics run inside TLC vs declarative windows) with TLC on an exhaustive boundary grid + replay through the real instructions / builders with a pinned clock + TLC judging of recorded 63-bit cases',
                text='TLC runs the documented lock instruction sequences on the VM specification and proves operational = declarative window on the exhaustive (t, now, c, threshold) x encoding grid; each grid point is replayed (shifted to a realistic clock) through run_script with the real builders, whose bytes are compared with the documented sequence; random large cases are recorded and judged by TLC in limb arithmetic.',
                ref='5 C16', note=PURE_NOTE)
CHECKS['C19'] = dict(engine='Registry', tech='TLA+ spec (Registry.tla history machine) with TLC: every registry state x every call (VIEW hides the history) + replay of history+call in a fresh interpreter + TLC validation of recorded random API histories',
                text='The registries are specified as sets with observation calls (run / compile / assemble) whose results are functions of arguments and registry only; TLC explores every reachable registry state x last observation x every call and prints each transition with a shortest history, which is replayed against the real add/remove/reset/run/compile API in a fresh interpreter state (registry snapshot, plugins and contracts actually used by a run, compile output, caller dictionaries); random 40-call histories recorded from the API are checked call by call by TLC.',
                ref='5 C19', note=PURE_NOTE)
CHECKS['C11'] = dict(engine='Asm', tech='TLA+ spec (Asm.tla: abstract programs, documented encoding Enc, token renderings, Encodable) with TLC over structural and operand-boundary families + replay of every rendering in 6 lexical variants through compile_script + TLC judging of compiled random abstract programs',
                text='TLC enumerates 84k abstract programs covering every block construct, terminator style, hoisting, macros, comptime blocks, variables and comments, plus every operand kind at its boundaries, checks RoundTrip / VMAgrees / PushMinimal and prints tokens and documented bytes; each is rendered in 6 lexical variants and compiled by the real compiler (accepted => identical bytes, unencodable => rejected); random programs over all ops are compiled and judged by TLC (Enc(program) = bytes).',
                ref='5 C11', note=PURE_NOTE)
CHECKS['C12'] = dict(engine='Asm', tech='TLA+ spec (Asm.tla disassembler: InstrLen / Decodes / Canon / Listing) with TLC over all byte strings of length <= 2 and decoder-class families + replay through decompile_script under a watchdog (termination, listing line by line, recompile) + TLC judging of random / mutated strings, builder outputs and vectors',
                text='The disassembler is specified as a decoder with a progress invariant (every decoded length >= 1 and inside the string) and a canonical program whose rendering is the listing; TLC checks it on every byte string of length <= 2 and on decoder-class families, and every string is fed to the real decompile_script under a watchdog (must terminate, listing or error as specified, identical lines, compile(listing) = bytes); random and mutated strings up to 70 KiB, all builder outputs and repository vectors are recorded and judged by TLC.',
                ref='5 C12', note=PURE_NOTE)
CHECKS['C02'] = dict(engine='SigMsg', tech='TLA+ spec (SigMsg.tla on SigMsgCore: flag-selected message, ideal signatures) with TLC over permission / selection / corruption / length families + replay with real Ed25519 signatures through the six instructions + TLC judging of random scenarios',
                text='TLC enumerates all 256 x 256 flag / allowed-flag pairs, all presence-pattern x flag selections, corruption kinds at every field position and length variants, checks the laws (SignThenCheck, CoveredChangeFails, ExcludedChangeIrrelevant, NeverTrueWhenMalformed, CoveredExact) and prints each case with the specified verdict and message bytes; every case is concretised with real keys, independently produced signatures and bit flips and executed as a script; random scenarios with long fields are recorded and judged by TLC.',
                ref='5 C02', note=PURE_NOTE)
CHECKS['C03'] = dict(engine='Multisig', tech='TLA+ spec (Multisig.tla: greedy matcher state machine vs declarative quorum) with TLC over all scenarios n <= N + replay through OP_CHECK_MULTISIG(_VERIFY) with real signatures + TLC running the same machine on recorded random scenarios and builder outputs',
                text='The instruction is specified as a state machine with one action per signature/key comparison; TLC checks TrueIffQuorum, FewerNeverPass and KeysUsedOnce on every state of every scenario (listed signers, outsider, duplicates, flag variants, malformed) and each terminal verdict is replayed with real keys and signatures; larger random scenarios and make_multisig_lock + joined witnesses are recorded and judged by TLC.',
                ref='5 C03', note=PURE_NOTE)
SYM_NOTE = ('Trusted: TLC/SANY, CPython, the pure-Python Ed25519 reference (cross-checked with PyNaCl), the concretisation of symbolic scenarios. Cryptographic claims are decided in a symbolic algebra (up to hash collisions / discrete-log coincidences) and exercised concretely with real keys.')
CHECKS['C04'] = dict(engine='Merkle', tech='TLA+ spec (Merkle.tla: symbolic hashes, XOR roots, MERKLEVAL chain, byte-level Pack/Unpack, builder shapes) with TLC over all tree shapes x leaves x proof corruptions + replay with the real tree classes / builders + TLC judging of random trees',
                text='TLC enumerates every binary tree shape up to the leaf bound, every leaf and every proof corruption and checks Complete / Binding / SwapFails / ExtraLeavesJunk / PackRoundTrip, plus the prioritized and balanced builder shapes; each case is rebuilt with the real ScriptLeaf / ScriptNode or builders and executed (which leaf ran, leftovers, authorization, pack bytes, unpack round trip); random trees up to 24 leaves with corruptions at random levels are judged by TLC.',
                ref='5 C04', note=SYM_NOTE)
CHECKS['C05'] = dict(engine='Taproot', tech='TLA+ spec (Taproot.tla on SymCrypto.tla) with TLC over key x script x witness classes x flags x lock kinds + replay with the real builders and an independent root computation + TLC judging of random scenarios and native vs non-native comparisons',
                text='The taproot step is specified on a symbolic group algebra (root = P + h(P,S)); TLC checks RootBinds / KeyPathExact / ScriptPathExact / BuildersUnlock over 8 witness classes, flag classes and both lock kinds; every case is concretised with the real builders, the root bytes are recomputed with the pure-Python Ed25519, and verdict plus whether any instruction of the supplied script ran are compared; random scenarios and native vs non-native verdicts on adversarial witnesses are judged by TLC.',
                ref='5 C05', note=SYM_NOTE)
CHECKS['C17'] = dict(engine='Adapter', tech='TLA+ spec (Adapter.tla on SymCrypto.tla) with TLC over signer x message x tweak x alteration x decryption scalar + replay through the four adapter instructions with two independent verifiers + TLC judging of random scenarios, single-bit corruptions and the builders end to end',
                text='Adapter signatures are specified on the symbolic algebra; TLC checks CheckHonest / CheckFailsIfAltered / DecryptVerifies / ExtractRecovers / AdapterNotASig on every case (and that the implemented private-tweak construction deviates: finding F13); every case is concretised incl. edge scalars 1 and L-1 and the decrypted signature is verified by the pure-Python RFC 8032 verifier and PyNaCl; random scenarios with single-bit corruption of each check input and the lock / witness / decrypt builders are judged by TLC.',
                ref='5 C17', note=SYM_NOTE)
CHECKS['C13'] = dict(engine='Locks', tech='TLA+ spec (Locks.tla: each lock script executed on symbolic items with ideal signatures vs declarative Intended) with TLC over all lock x witness-builder cross-pairings x perturbations + replay with the real builders + TLC judging of random scenarios',
                text='Six locks are modelled operationally as their scripts execute on symbolic stack items and TLC proves Accept <=> Intended over all 4,536 combinations of lock, witness builder (every cross-pairing), key, covered / excluded field change, flag class, committed / surrogate script and surrogate signer; each case is built with the real builders (honest assemblies must equal the builders\' bytes) and run through run_auth_scripts; random scenarios are judged by TLC.',
                ref='5 C13', note=SYM_NOTE)
CHECKS['C14'] = dict(engine='Delegation', tech='TLA+ spec (Delegation.tla: chain lock as a state machine, one step per certificate; 105-byte certificate layout) with TLC over all chains up to N + replay with the real cert / witness / lock builders under a pinned clock + TLC running the machine on recorded random chains',
                text='TLC explores every chain of certificates (delegate, signer, six window positions incl. t = begin, t = end - 1, t = end and beyond-slack, may-delegate) with invariants AcceptIffValidChain and AuthIsCertified, plus CertRoundTrip on the byte layout; each chain is concretised with real keys and builders and run through run_auth_scripts; chains up to 6 with random timestamps and single-byte certificate corruptions are judged by TLC.',
                ref='5 C14', note=SYM_NOTE)
CHECKS['C15'] = dict(engine='Htlc', tech='TLA+ spec (Htlc.tla: the six lock scripts executed on symbolic items vs ClaimOK / RefundOK) with TLC over all lock x witness cross-pairings x signer x preimage x time + replay with the real builders under pinned clocks + TLC judging of random scenarios',
                text='TLC proves Accept <=> ClaimOK or RefundOK over 960 combinations (6 locks x 4 witness builders x 5 signers incl. right / wrong tweak x preimage x 4 time positions around the deadline and beyond the slack); every case is built with the real builders with tools.time pinned at creation and functions.time at the check; random seeds, preimage lengths, digest sizes, timeouts, tweaks and flags are judged by TLC.',
                ref='5 C15', note=SYM_NOTE)
CHECKS['C18'] = dict(engine='Amhl', tech='TLA+ spec (Amhl.tla on SymCrypto.tla: state machine of open / release attempts with every known scalar) with TLC over all interleavings for 2..N hops + replay of every attempt on a real chain (setup_amhl, adapter witnesses, decrypt_adapter, release_left_amhl_lock) + TLC judging of random attempts',
                text='The release cascade is a state machine in which any claimant may try any hop with any scalar known so far; TLC checks OnlyRightToLeft, RightScalarOnly, ReleaseExact, SetupConsistent and CascadeCompletes over every interleaving; each attempt is replayed on a real chain whose keys come from the real release cascade, with independent recomputation of every tweak point and key; chains up to 8 hops with refund keys and random attempt orders are judged by TLC.',
                ref='5 C18', note=SYM_NOTE)
NOT_YET = {}

props = [json.loads(l) for l in open(os.path.join(ROOT, 'properties.jsonl'))]
checks, na = [], []
for p in props:
    pid = p['id']
    if pid in CHECKS:
        c = CHECKS[pid]
        checks.append({
            'property_id': pid,
            'quick_cmd': f'./check {pid} --tier quick',
            'thorough_cmd': f'./check {pid} --tier thorough',
            'evidence_file': f'/verif/evidence/{pid}.json',
            'replay_cmd_template': f'./check {pid} --replay {{path}}',
            'engine': c['engine'],
            'level_claimed': {'category': 'model_checking', 'text': c['text'], 'design_ref': c['ref']},
            'level_note': c.get('note', VM_NOTE),
            'technique': c['tech'],
        })
    else:
        na.append({'property_id': pid, 'reason': NOT_YET.get(pid, 'check not built yet (work in progress); planned with the TLA+ technique, see DESIGN.md section 5')})

manifest = {
    'version': 1,
    'setup_cmd': './check setup',
    'hooks': {
        'guard': 'TAPESCRIPT_VERIF (unused: observation is done by harness-side wrapping of the module-level dispatch tables and functions; no source hooks exist)',
        'enable': 'n/a - /repo is imported in place from its current working tree',
        'baseline_off_cmd': 'cd /repo && /venv/bin/python -m pytest -q -p no:cacheprovider --timeout=900',
        'source_commits': [],
        'add_only': True,
    },
    'engines': [
        {'name': 'Locks', 'path': '/verif/spec/Locks.tla', 'serves_properties': ['C13'], 'kind_free_text': 'signature / commitment lock builders'},
        {'name': 'Delegation', 'path': '/verif/spec/Delegation.tla', 'serves_properties': ['C14'], 'kind_free_text': 'delegation chain lock state machine'},
        {'name': 'Htlc', 'path': '/verif/spec/Htlc.tla', 'serves_properties': ['C15'], 'kind_free_text': 'HTLC / PTLC locks'},
        {'name': 'Amhl', 'path': '/verif/spec/Amhl.tla', 'serves_properties': ['C18'], 'kind_free_text': 'anonymous multi-hop lock cascade'},
        {'name': 'SymCrypto', 'path': '/verif/spec/SymCrypto.tla', 'serves_properties': ['C05', 'C17', 'C18', 'C13', 'C15'], 'kind_free_text': 'symbolic scalar / point / hash algebra'},
        {'name': 'Merkle', 'path': '/verif/spec/Merkle.tla', 'serves_properties': ['C04'], 'kind_free_text': 'merklized script trees'},
        {'name': 'Taproot', 'path': '/verif/spec/Taproot.tla', 'serves_properties': ['C05'], 'kind_free_text': 'taproot root and spend paths'},
        {'name': 'Adapter', 'path': '/verif/spec/Adapter.tla', 'serves_properties': ['C17'], 'kind_free_text': 'adapter signatures'},
        {'name': 'SigMsg', 'path': '/verif/spec/SigMsg.tla', 'serves_properties': ['C02'], 'kind_free_text': 'signature message selection and check verdicts'},
        {'name': 'Multisig', 'path': '/verif/spec/Multisig.tla', 'serves_properties': ['C03'], 'kind_free_text': 'greedy multisig matcher as a state machine'},
        {'name': 'Asm', 'path': '/verif/spec/Asm.tla', 'serves_properties': ['C11', 'C12', 'C20'], 'kind_free_text': 'assembler / disassembler: abstract programs, documented encoding, renderings, decoder, listing; AsmMC.tla = families and trace judging'},
        {'name': 'Registry', 'path': '/verif/spec/Registry.tla', 'serves_properties': ['C19'], 'kind_free_text': 'extension registries as a history machine'},
        {'name': 'Codec', 'path': '/verif/spec/Codec.tla', 'serves_properties': ['C10'], 'kind_free_text': 'integer / float32 encodings on byte sequences (BigInt.tla limb arithmetic)'},
        {'name': 'Timelock', 'path': '/verif/spec/Timelock.tla', 'serves_properties': ['C16'], 'kind_free_text': 'time windows: TapeVM run inside TLC vs declarative predicates'},
        {'name': 'TapeVM', 'path': '/verif/spec/TapeVM.tla', 'serves_properties': ['C01', 'C06', 'C07', 'C08', 'C09', 'C20'],
         'kind_free_text': 'byte-level small-step TLA+ specification of the VM; TapeVMMC.tla = exhaustive families, TapeVMTrace.tla = trace validation; checked with TLC'},
    ],
    'checks': checks,
    'not_applicable': na,
    'notes': 'fix: commits in /repo and known findings are listed in /verif/known_findings.json and DESIGN.md section 6.',
}
with open(os.path.join(ROOT, 'MANIFEST.json'), 'w') as f:
    json.dump(manifest, f, indent=1)
print('manifest:', len(checks), 'checks,', len(na), 'not yet claimed')
