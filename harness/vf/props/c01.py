"""C01 - authorization verdict is exact; a witness cannot truncate or skip the lock."""
from ..common import Report
from .. import vmcheck


def main(tier: str, seed: int) -> int:
    rep = Report('C01', tier, seed)
    rep.rule = ('MC: TapeVMMC families auth1/auth2/auth3 (every <witness, lock> / <w, w2, lock> list over an adversarial '
                'witness set and a lock set with control flow, x 4 limit triples) and raw (all byte strings of length '
                '<= 3 over a 12-byte alphabet, singly and as second script after all strings of length <= 2), checked '
                'by TLC for InvTopAtBoundary / NoSkip / InvVerdictExact / InvAllScriptsRan and every behaviour replayed '
                'through run_auth_scripts (verdict, executed-instruction sequence, final state); traces: generated '
                'authorization lists (random byte strings; structured adversarial witness/lock pairs; full-opcode '
                'programs) validated by TLC, C01 clause set = frame depth, pointer, returned flag, next-script entry, '
                'call count, verdict, exception. non-trivial = at least one instruction executed.')
    rep.assumptions = ['the initial cache does not contain the interpreter\'s own key \'returned\' (finding F12, C08)']
    quick = tier == 'quick'
    vmcheck.mc_family(rep, 'auth1', 0)
    vmcheck.mc_family(rep, 'auth2', 0)
    if not quick:
        vmcheck.mc_family(rep, 'auth3', 0)
        vmcheck.mc_family(rep, 'raw', 0)
    base = seed * 1_000_003
    for gen, n in (('vf.gen.runs:make_auth_adv', 1500 if quick else 30000),
                   ('vf.gen.runs:make_auth_random', 800 if quick else 20000),
                   ('vf.gen.runs:make_run', 500 if quick else 10000),
                   ('vf.gen.builders:make_builder_run', 580 if quick else 5800)):
        kw = {'auth_ratio': 1.0} if gen.endswith('make_run') else {}
        for off in range(0, n, 10000):
            traces = vmcheck.record([(gen, base + off + i, kw) for i in range(min(10000, n - off))])
            if off == 0:
                t = traces[1]
                rep.sample({'generator': gen, 'scripts': [bytes(s).hex() for s in t['cfg']['scripts']],
                            'verdict': t['outcome']['verdict'], 'events': len(t['ev'])})
            vmcheck.check_traces(rep, traces, gen.split(':')[1])
    return rep.finish()


def replay(path: str) -> int:
    return vmcheck.replay_one(path, 'C01')
