-------------------------------- MODULE Amhl --------------------------------
(***************************************************************************)
(* Anonymous multi-hop locks (C18) on the symbolic algebra.                *)
(*   secrets y_0 .. y_{n-1};  K(i) = y_0 + .. + y_i;  hop i's tweak point  *)
(*   T_i = K(i) G;  hop i's adapter signature is made for T_i and is       *)
(*   decrypted exactly by K(i).  The final key K(n-1) opens the last hop;  *)
(*   from a hop's decrypted signature and its adapter the tweak K(i) is    *)
(*   extracted and the left neighbour computes K(i-1) = K(i) - y_i.        *)
(* State machine: any party may try to open any hop with any scalar that   *)
(* is known at that point (the final key, the partial secrets, a second    *)
(* chain's scalars, and whatever earlier openings released).               *)
(* Refund keys: for the hops in `refunds` the signature lock is a PTLC     *)
(* (claim branch: the hop key; refund branch: that hop's refund key after  *)
(* the timeout).  Which hops have refund keys must not change which scalar *)
(* opens which hop; a refund-key holder can take back exactly its own hop, *)
(* only after the timeout, and that releases nothing.                      *)
(***************************************************************************)
EXTENDS SymCrypto, Json, IOUtils, TLC

CONSTANTS Family, Emit, MaxHops, MaxRefundHops
VARIABLES n, opened, known, last, refunds

vars == <<n, opened, known, last, refunds>>

Y(i) == SVar(Atom("y", i))                         \* partial secret of party i
RECURSIVE K(_)
K(i) == IF i = 0 THEN Y(0) ELSE SAdd(K(i - 1), Y(i))
RECURSIVE KB(_)
KB(i) == IF i = 0 THEN SVar(Atom("z", 0)) ELSE SAdd(KB(i - 1), SVar(Atom("z", i)))      \* a second chain
X(i) == SVar(Atom("x", i))
Nonce(i) == SVar(Atom("r", i))
\* hop i's adapter for tweak point K(i)
AdapterOf(i) == LET r == Nonce(i) IN <<r, SAdd(r, SMulAtom(Chal(SAdd(r, K(i)), X(i), Msg(i)), X(i)))>>
Opens(i, k) == LET a == AdapterOf(i) IN Verify(X(i), Msg(i), SAdd(a[1], k), SAdd(a[2], k))
\* extraction from the decrypted signature, then release to the left
Extracted(i, k) == LET a == AdapterOf(i) IN SSub(SAdd(a[2], k), a[2])
Release(k, i) == SSub(k, Y(i))

Named(nm, ix, v) == [nm |-> nm, ix |-> ix, v |-> v]
\* what claimants can try: the final key (held by the receiver), the partial secrets of the intermediate
\* parties 1..n-1 (party 0 is the originator: the payer of hop 0, who sampled everything), a second chain
InitKnown(nn) == {Named("K", nn - 1, K(nn - 1))} \cup {Named("y", i, Y(i)) : i \in 1..(nn - 1)} \cup {Named("B", i, KB(i)) : i \in 0..(nn - 1)}

TraceLog == IF Family = "trace" THEN JsonDeserialize(IOEnv.TRACE_FILE) ELSE <<>>
Init == IF Family = "trace"
        THEN \E i \in 1..Len(TraceLog) : n = TraceLog[i].n /\ opened = {} /\ known = {} /\ refunds = {}
                                         /\ last = [hop |-> -2, nm |-> "", ix |-> i, ok |-> FALSE, tm |-> ""]
        ELSE /\ n \in 2..MaxHops /\ opened = {} /\ known = InitKnown(n) /\ last = [hop |-> -1, nm |-> "", ix |-> 0, ok |-> FALSE, tm |-> ""]
             /\ refunds \in (IF n <= MaxRefundHops THEN SUBSET (0..(n - 1)) ELSE {{}, 0..(n - 1), {0}, {n - 1}})
Try(i, s) ==
    /\ i \notin opened
    /\ IF Opens(i, s.v)
       THEN /\ opened' = opened \cup {i}
            /\ known' = known \cup (IF i > 0 THEN {Named("K", i - 1, Release(Extracted(i, s.v), i))} ELSE {})
       ELSE UNCHANGED <<opened, known>>
    /\ last' = [hop |-> i, nm |-> s.nm, ix |-> s.ix, ok |-> Opens(i, s.v), tm |-> ""]
    /\ UNCHANGED <<n, refunds>>
\* the holder of hop j's refund key signs for the refund branch of hop i's lock, before / after the timeout
RefundOpens(i, j, tm) == i \in refunds /\ j = i /\ tm = "after"
TryRefund(i, j, tm) ==
    /\ i \notin opened
    /\ last' = [hop |-> i, nm |-> "F", ix |-> j, ok |-> RefundOpens(i, j, tm), tm |-> tm]
    /\ UNCHANGED <<n, opened, known, refunds>>
Next == Family # "trace" /\ (\/ \E i \in 0..(n - 1), s \in known : Try(i, s)
                             \/ \E i \in 0..(n - 1) : \E j \in refunds \cup {i}, tm \in {"before", "after"} : TryRefund(i, j, tm))
Spec == Init /\ [][Next]_vars

\* ---- invariants ---------------------------------------------------------------------------------------
\* hop i is opened only after hop i + 1 (right to left)
OnlyRightToLeft == \A i \in opened : \A j \in (i + 1)..(n - 1) : j \in opened
\* only the right scalar opens a hop
WrongScalarFails == last.ok /\ last.nm # "F" => \E s \in known : s.nm = "K" /\ s.ix = last.hop /\ s.v = K(last.hop)
RightScalarOnly == \A i \in 0..(n - 1), s \in known : Opens(i, s.v) <=> s.v = K(i)
\* a refund key takes back exactly its own hop, only after the timeout; hops without refund keys have no refund branch
RefundOnlyOwn == last.nm = "F" /\ last.ok => last.hop \in refunds /\ last.ix = last.hop /\ last.tm = "after"
\* what an opening releases is exactly the next-left key
ReleaseExact == \A s \in known : s.nm = "K" => s.v = K(s.ix)
\* the setup every party sees is consistent: Y_{i-1} + y_i G = Y_i; the final key opens the last lock
SetupConsistent == \A i \in 1..(n - 1) : SAdd(K(i - 1), Y(i)) = K(i)
\* the cascade can always continue: the key for the rightmost unopened hop is known
CascadeCompletes == Family = "trace" \/ opened = 0..(n - 1) \/ LET i == CHOOSE j \in 0..(n - 1) : j \notin opened /\ \A m \in (j + 1)..(n - 1) : m \in opened
                                           IN \E s \in known : s.v = K(i)

Out == [n |-> n, opened |-> opened, refunds |-> refunds, hop |-> last.hop, nm |-> last.nm, ix |-> last.ix, tm |-> last.tm, expect |-> IF last.ok THEN "opens" ELSE "fails"]
EmitCase == last.hop < 0 \/ ~Emit \/ PrintT(ToJson(Out))
\* trace cases: [n, hop, nm, ix, got]: an attempt recorded from the implementation
ScalarOf(nm, ix) == CASE nm = "K" -> K(ix) [] nm = "y" -> Y(ix) [] nm = "B" -> KB(ix) [] OTHER -> SZero
TraceExpect(t) == IF t.nm = "F" THEN (\E q \in 1..Len(t.refunds) : t.refunds[q] = t.hop) /\ t.ix = t.hop /\ t.tm = "after"
                  ELSE Opens(t.hop, ScalarOf(t.nm, t.ix))
TraceCheck == last.hop # -2 \/ LET t == TraceLog[last.ix] IN
                 PrintT(ToJson([i |-> last.ix, v |-> IF t.got = (IF TraceExpect(t) THEN "opens" ELSE "fails") THEN "ok" ELSE "verdict"]))
View == <<n, opened, last, refunds>>
=============================================================================
