"""C11 - the compiler emits exactly the instructions written, in the documented encoding."""
import multiprocessing as mp
from ..par import SafePool
from ..common import Report
from .. import asmcheck


def main(tier: str, seed: int) -> int:
    rep = Report('C11', tier, seed)
    rep.rule = ('MC (Asm.tla / AsmMC.tla): family struct - 84,161 abstract programs: every block construct (IF with / without '
                'hoisted condition, IF..ELSE, TRY with / without EXCEPT, LOOP, DEF with plain / d / x handles, macro '
                'definition + call, ~ { } and ~! { } comptime blocks, @= / @ / @# variables, comments) with bodies of <= 2 '
                'statements, nesting <= 2, brace and END_ terminators per block, alone / followed by statements / in pairs; '
                'family operands - every operand kind at its boundary values (pushes of 0,1,2,255,256,257 bytes; integers at '
                '+-2^7, 2^8, 2^15, 2^16, 2^23; one-byte operands as d and x; SWAP, MULTISIG, float, hash, size-prefixed, '
                'WRITE_CACHE, explicit PUSH1/PUSH2). TLC checks RoundTrip, VMAgrees, PushMinimal and prints tokens + '
                'documented bytes; each case is rendered in 6 lexical variants (OP_ prefix / alias / short alias, letter '
                'case, whitespace kinds, value-prefix case) and compiled: accepted => identical bytes; unencodable => '
                'rejected. traces: random abstract programs over all 92 ops + NOPs (nesting <= 3) rendered, compiled and '
                'judged by TLC (Enc(program) = bytes).')
    rep.assumptions = ['the property speaks about sources the compiler accepts: an encodable spelling that is rejected is counted '
                       '(evidence: encodable_but_rejected_in_every_spelling) but is not a violation',
                       'string values use single spaces (get_symbols collapses whitespace runs inside s"...": finding F8c)']
    quick = tier == 'quick'
    asmcheck.mc_family(rep, 'operands', 'asm', seed)
    asmcheck.mc_family(rep, 'nopctx', 'asm', seed)
    asmcheck.mc_family(rep, 'struct', 'asm', seed)
    n = 4000 if quick else 60000
    jobs = [(seed * 7919 + i, n // 56) for i in range(56)]
    with SafePool(14) as pool:
        cases = [c for ch in pool.map(asmcheck._record_asm_chunk, jobs) for c in ch]
    rep.extra['accepted_by_compiler'] = sum(1 for c in cases if c['accepted'])
    rep.sample({'random_program_source': cases[0]['src'], 'accepted': cases[0]['accepted'], 'bytes': bytes(cases[0]['got']).hex()[:120]})
    asmcheck.judge(rep, cases, 'random abstract programs')
    return rep.finish()


def replay(path: str) -> int:
    import json
    obj = json.load(open(path))
    if obj.get('kind') == 'replay':
        out = asmcheck._replay_asm(([obj['record']], 0))
        print(out)
        return 1 if out[0]['bytes'] else 0
    return 2
