"""C07 - stack, item-size, call-depth, loop and tape limits hold at every step."""
from ..common import Report
from .. import vmcheck


def main(tier: str, seed: int) -> int:
    rep = Report('C07', tier, seed)
    rep.rule = ('MC: TapeVMMC family limits (all programs of <= N instructions over a resource-hungry alphabet: pushes of '
                'sizes 0..4, COPY, DUP, CONCAT, LOOPs that grow the stack, self-recursive CALL, self-reproducing EVAL, '
                'nested IF, multi-item cache reads, out-of-range REVERSE/SWAP, truncated operands) x all 27 limit triples '
                'in {1,2,3}x{1,2,4}x{1,2,3}; invariants StackBounded, ItemBounded, PcInRange, DepthBounded, LoopBounded at '
                'every state; every behaviour replayed through the implementation. traces: resource-hungry generator at '
                'small and realistic limits; per event the in-instruction high-water marks of a recording deque, the '
                'token_bytes request size, exception class; C07 clause set = limits, bounds, alloc, limit-error class, '
                'interpreter-level failures (RecursionError, MemoryError), non-termination.')
    rep.assumptions = ['allocation is observed at token_bytes (the only size-parameterised allocator an instruction calls) '
                       'and through item sizes on the stack',
                       'wrapper frames are compensated in the recursion limit (observe.Recorder._frames)']
    quick = tier == 'quick'
    vmcheck.mc_family(rep, 'limits', 2 if quick else 3)
    base = seed * 1_000_003
    for gen, n, kw in (('vf.gen.runs:make_hungry', 2000 if quick else 40000, {}),
                       ('vf.gen.runs:make_run', 600 if quick else 10000, {})):
        for off in range(0, n, 10000):
            traces = vmcheck.record([(gen, base + off + i, kw) for i in range(min(10000, n - off))])
            if off == 0:
                t = traces[2]
                rep.sample({'generator': gen, 'script': bytes(t['cfg']['scripts'][0]).hex()[:200],
                            'limits': [t['cfg']['maxItems'], t['cfg']['maxItemSize'], t['cfg']['callLimit']],
                            'events': len(t['ev']), 'last_exc': t['ev'][-1]['exc']})
            vmcheck.check_traces(rep, traces, gen.split(':')[1])
    return rep.finish()


def replay(path: str) -> int:
    return vmcheck.replay_one(path, 'C07')
