"""C05 - taproot: the root binds key and script; key path and script path are exact."""
import hashlib, random, sys
from ..par import SafePool
from ..common import Report, REPO
from .. import scncheck
from ..gen.progs import push, op, b1
from ..ref import ed25519 as E

INV = ['RootBinds', 'KeyPathExact', 'ScriptPathExact', 'BuildersUnlock']
SF = {f'sigfield{i}': b'tap-%d;' % i for i in range(1, 9)}
FLAG = {'f0': '00', 'perm': '01', 'nonperm': '02'}
ALLOWED = '01'


def _impl():
    if REPO not in sys.path:
        sys.path.insert(0, REPO)
    import tapescript.functions as F
    import tapescript.tools as T
    return F, T


def script_bytes(marker: int, sv: str) -> bytes:
    return push(bytes([marker])) + op('POP0') + (op('TRUE') if sv == 'true' else op('FALSE'))


def ref_root(pk: bytes, script: bytes) -> bytes:
    t = E.clamp(hashlib.sha256(pk + hashlib.sha256(script).digest()).digest())
    return E.point_add(pk, E.base_mult_noclamp(t))


def ref_keyspend_sig(seed: bytes, script: bytes, sf: dict, flag: int) -> bytes:
    """key-spend signature made WITHOUT the implementation: root scalar = x + clamp(sha256(P || sha256(S))), reference
    signer over the reference message (so that a defect in the VM's own message building cannot cancel out)"""
    from ..ref.opsem import message
    from .c15 import sign_scalar
    x = E.derive_key_from_seed(seed)
    t = E.clamp(hashlib.sha256(E.public_key(seed) + hashlib.sha256(script).digest()).digest())
    return sign_scalar(E.scalar_add(x, t), message(sf, flag)) + (bytes([flag]) if flag else b'')


def one(F, T, seed, oseed, script, oscript, w, fl, lockkind, sf=None, prefix=b'', limit=128, allowed=ALLOWED, fh=None, indep=False, suffix=b''):
    sf = sf or SF
    S, OS = T.Script.from_bytes(script), T.Script.from_bytes(oscript)
    pk, opk = E.public_key(seed), E.public_key(oseed)
    mk = T.make_taproot_lock if lockkind == 'native' else T.make_nonnative_taproot_lock
    lock = bytes(mk(pk, S, sigflags=allowed).bytes)
    root = ref_root(pk, script)
    if root not in lock:
        return ['root-mismatch', 'noexec']
    fh = fh or FLAG[fl]
    supplied = script
    if w == 'keyspend' and indep:
        wit = T.Script.from_bytes(push(ref_keyspend_sig(seed, script, sf, int(fh, 16))))
    elif w == 'keyspend':
        wit = T.make_taproot_witness_keyspend(seed, dict(sf), S, sigflags=fh)
    elif w == 'keyinternal':
        wit = T.make_single_sig_witness(seed, dict(sf), fh)
    elif w == 'keyother':
        wit = T.make_taproot_witness_keyspend(oseed, dict(sf), S, sigflags=fh)
    elif w == 'keyotherscript':
        wit = T.make_taproot_witness_keyspend(seed, dict(sf), OS, sigflags=fh)
    elif w == 'scriptspend':
        wit = T.make_taproot_witness_scriptspend(pk, S)
    elif w == 'scriptother':
        wit = T.make_taproot_witness_scriptspend(pk, OS)
        supplied = oscript
    elif w == 'scriptkeyother':
        wit = T.make_taproot_witness_scriptspend(opk, S)
    elif w == 'scriptroot':
        wit = T.make_taproot_witness_scriptspend(root, S)
    wit = prefix + bytes(wit.bytes) + suffix
    # run through the public pieces so that the cache can be inspected afterwards
    try:
        t1, stack, cache = F.run_script(wit, dict(sf), callstack_limit=limit)
        cache.pop('returned', None)
        tape = F.Tape(lock, callstack_limit=limit, callstack_count=t1.callstack_count, definitions=t1.definitions)      # as run_auth_scripts chains them
        tape.plugins = {}
        F.run_tape(tape, stack, cache)
        ok = len(stack) == 1 and stack.list()[0] == b'\xff'
    except BaseException as e:
        if isinstance(e, (KeyboardInterrupt, SystemExit)):
            raise
        ok, cache = False, locals().get('cache', {})
    ok2 = F.run_auth_scripts([wit, lock], dict(sf), callstack_limit=limit)
    if ok != ok2:
        return ['run_auth_scripts-disagrees', 'noexec']
    ran = cache.get(b'P') == [supplied[1:2]]
    return ['true' if ok else 'false', 'runs' if ran else 'noexec']


def run_mc(k):
    F, T = _impl()
    seeds = {1: b'\x31' * 32, 2: b'\x32' * 32}
    scripts = {1: script_bytes(0x51, k['sv']), 2: script_bytes(0x52, k['sv'])}
    exp = k['expect']
    # the flag classes are concretised by every single-bit allowed-flags byte: permitted = that bit, non-permitted = the next bit
    pairs = [(ALLOWED, FLAG[k['fl']])]
    if k['w'].startswith('key') and k['fl'] != 'f0':
        pairs += [(f'{1 << i:02x}', f'{1 << (i if k["fl"] == "perm" else (i + 1) % 8):02x}') for i in range(8)]
    got = None
    for allowed, fh in pairs:
        for indep in ((False, True) if k['w'] == 'keyspend' else (False,)):
            got = one(F, T, seeds[k['k']], seeds[3 - k['k']], scripts[k['s']], scripts[3 - k['s']], k['w'], k['fl'], k['lock'],
                      allowed=allowed, fh=fh, indep=indep)
            # run_auth_scripts reports an execution error as False
            if got[0] == 'false' and exp[0] == 'error':
                got[0] = 'error'
            if got != exp:
                return got, f'allowed flags x{allowed}, signature flag x{fh}' + (', signature made by the reference signer' if indep else '')
    return got, None


def record_random(args):
    seed, count = args
    F, T = _impl()
    from ..gen import runs
    out = []
    classes = ['keyspend', 'keyinternal', 'keyother', 'keyotherscript', 'scriptspend', 'scriptother', 'scriptkeyother', 'scriptroot']
    for j in range(count):
        r = random.Random(f'{seed}/{j}')
        s1, s2 = r.randbytes(32), r.randbytes(32)
        sv = r.choice(['true', 'true', 'false'])
        x5 = r.randbytes(5)
        body = r.choice([b'', push(x5) + push(x5) + op('EQUAL_VERIFY'), op('TRUE') + op('VERIFY'),
                         # a block followed by mandatory instructions (a stale RETURN marker would end the script at the block);
                         # no POP0 in a body: the last POP0'd item is the marker that tells which script ran
                         op('TRUE') + b'\x2b\x00\x02' + op('TRUE') + op('VERIFY') + op('TRUE') + op('VERIFY'),
                         # committed scripts whose size sits on a push-size boundary (the script-spend witness pushes the script)
                         (lambda x: r.choice([b'', push(b'\x01') + op('VERIFY')]) + push(x) + push(x) + op('EQUAL_VERIFY'))(r.randbytes(r.choice([120, 121, 122, 123, 124, 125, 126, 127])))])
        script = push(b'\x51') + op('POP0') + body + (op('TRUE') if sv == 'true' else op('FALSE'))
        oscript = push(b'\x52') + op('POP0') + body + (op('TRUE') if sv == 'true' else op('FALSE'))
        sf = {f'sigfield{i}': r.randbytes(r.choice([1, 8, 50])) for i in range(1, 9) if r.random() < 0.5}
        sf.setdefault('sigfield1', b'x')
        w, fl, lk = r.choice(classes), r.choice(['f0', 'f0', 'perm', 'nonperm']), r.choice(['native', 'nonnative'])
        # random allowed-flags byte; permitted = a non-empty subset of it, non-permitted = some bit outside it
        al = r.choice([1 << r.randrange(8), r.randrange(1, 256), r.randrange(1, 256), 0x0a, 0x10, 0xa5, 0xff])
        if fl == 'nonperm' and al == 0xff:
            fl = 'perm'
        sub = al & r.randrange(256) or (al & -al)
        outside = [1 << i for i in range(8) if not al >> i & 1]
        fv = 0 if fl == 'f0' else sub if fl == 'perm' else (r.choice(outside) | (al & r.randrange(256)))
        if sub == 0xff:
            sub = 0xfe          # the builders refuse xff (a signature must cover at least one sigfield)
        fv = 0xfe if fv == 0xff and fl == 'perm' else fv
        if fv == 0xff:
            fv = outside[0]
        try:
            got = one(F, T, s1, s2, script, oscript, w, fl, lk, sf, allowed=f'{al:02x}', fh=f'{fv:02x}', indep=r.random() < 0.5)
        except BaseException as e:
            if isinstance(e, (KeyboardInterrupt, SystemExit)):
                raise
            got = [f'raised-{type(e).__name__}', 'noexec']
        out.append({'w': w, 'fl': fl, 'sv': sv, 'lock': lk, 'got': got})
        # a witness that defines handle 0 itself (the non-native lock keeps its root in def 0): the lock's definition wins
        if r.random() < 0.15:
            foreign_root = ref_root(E.public_key(s2), oscript)
            body = push(foreign_root)
            pre = op('DEF', b1(0), bytes([0, len(body)]), body)
            w3 = r.choice(['scriptother', 'scriptkeyother', 'keyother', 'scriptspend', 'keyspend'])
            try:
                a = one(F, T, s1, s2, script, oscript, w3, 'f0', 'native', sf, pre)
                b = one(F, T, s1, s2, script, oscript, w3, 'f0', 'nonnative', sf, pre)
                out.append({'w': 'eq', 'fl': 'f0', 'sv': sv, 'lock': 'both', 'got': [a[0], b[0]]})
            except BaseException as e:
                if isinstance(e, (KeyboardInterrupt, SystemExit)):
                    raise
        # a witness that ends in RETURN after pushing its items: the committed script must still run to completion (a stale
        # RETURN marker would end it at its first block), natively and non-natively alike
        if r.random() < 0.2:
            blk = op('TRUE') + b'\x2b\x00\x02' + op('TRUE') + op('VERIFY')
            for tail_true in (True, False):
                bs = push(b'\x51') + op('POP0') + blk + (op('TRUE') if tail_true else op('TRUE') + op('NOT'))
                bo = push(b'\x52') + op('POP0') + op('TRUE')
                try:
                    a = one(F, T, s1, s2, bs, bo, 'scriptspend', 'f0', 'native', sf, suffix=op('RETURN'))
                    b = one(F, T, s1, s2, bs, bo, 'scriptspend', 'f0', 'nonnative', sf, suffix=op('RETURN'))
                    want = 'true' if tail_true else 'false'
                    out.append({'w': 'eq', 'fl': 'f0', 'sv': 'true', 'lock': 'both', 'got': [a[0], b[0]] if a[0] == want else [a[0], 'native-verdict-wrong']})
                except BaseException as e:
                    if isinstance(e, (KeyboardInterrupt, SystemExit)):
                        raise
        # exactly two levels of call budget left for the lock (what the non-native lock needs): both locks accept
        if r.random() < 0.15:
            L = r.choice([2, 3, 4, 8, 128])
            burn = op('DEF', b1(9), b'\x00\x00') + op('CALL', b1(9)) * (L - 2)
            bs = push(b'\x51') + op('POP0') + op('TRUE')
            bo = push(b'\x52') + op('POP0') + op('TRUE')
            try:
                a = one(F, T, s1, s2, bs, bo, 'scriptspend', 'f0', 'native', sf, burn, limit=L)
                b = one(F, T, s1, s2, bs, bo, 'scriptspend', 'f0', 'nonnative', sf, burn, limit=L)
                out.append({'w': 'eq', 'fl': 'f0', 'sv': 'true', 'lock': 'both', 'got': [a[0], b[0]] if a[0] == 'true' else [a[0], 'native-verdict-wrong']})
            except BaseException as e:
                if isinstance(e, (KeyboardInterrupt, SystemExit)):
                    raise
        # native vs non-native when the witness has burnt k calls and the committed script makes d calls: both verdicts
        # must agree away from the budget edge (the non-native lock itself spends 2 calls)
        if r.random() < 0.25:
            kk, dd = r.choice([0, 30, 60, 100]), r.choice([0, 20, 40, 90, 120])
            if abs(kk + dd - 128) > 4:
                burn = op('DEF', b1(9), b'\x00\x00') + op('CALL', b1(9)) * kk
                bs = push(b'\x51') + op('POP0') + op('DEF', b1(8), b'\x00\x00') + op('CALL', b1(8)) * dd + op('TRUE')
                bo = push(b'\x52') + op('POP0') + op('TRUE')
                try:
                    a = one(F, T, s1, s2, bs, bo, 'scriptspend', 'f0', 'native', sf, burn)
                    b = one(F, T, s1, s2, bs, bo, 'scriptspend', 'f0', 'nonnative', sf, burn)
                    want = 'true' if kk + dd + 4 <= 128 else 'false'
                    out.append({'w': 'eq', 'fl': 'f0', 'sv': 'true', 'lock': 'both', 'got': [a[0], b[0]] if a[0] == want else [a[0], 'native-verdict-wrong']})
                except BaseException as e:
                    if isinstance(e, (KeyboardInterrupt, SystemExit)):
                        raise
        # native vs non-native on an adversarial witness (C01 family) that spends little call budget
        adv = runs.make_auth_adv(r.randrange(10 ** 9))
        prefix = b''.join(adv['scripts'][:-1])[:400]
        w2 = r.choice(classes)
        try:
            fl2 = r.choice(['f0', 'perm', 'nonperm']) if al != 0xff else 'perm'
            fv2 = 0 if fl2 == 'f0' else sub if fl2 == 'perm' else r.choice(outside)
            a = one(F, T, s1, s2, script, oscript, w2, fl2, 'native', sf, prefix, allowed=f'{al:02x}', fh=f'{fv2:02x}')
            b = one(F, T, s1, s2, script, oscript, w2, fl2, 'nonnative', sf, prefix, allowed=f'{al:02x}', fh=f'{fv2:02x}')
            out.append({'w': 'eq', 'fl': 'f0', 'sv': sv, 'lock': 'both', 'got': [a[0], b[0]]})
        except BaseException as e:
            if isinstance(e, (KeyboardInterrupt, SystemExit)):
                raise
    return out


def main(tier: str, seed: int) -> int:
    rep = Report('C05', tier, seed)
    rep.rule = ('MC (Taproot.tla on SymCrypto.tla): internal key x committed script x 8 witness classes (builder key spend, signature '
                'under the internal key, under another key\'s root, under the root of another script; builder script spend, other '
                'script, other key, the root itself as key) x flag classes (no flag / permitted / non-permitted, each concretised with every single-bit allowed-flags byte) x the script\'s own verdict x {native, non-native lock}; '
                'laws RootBinds, KeyPathExact, ScriptPathExact, BuildersUnlock; every case concretised with the real builders: the '
                'root inside the lock is recomputed with the pure-Python Ed25519 (P + clamp(sha256(P || sha256(S))) G), the verdict of '
                'witness + lock and whether an instruction of the supplied script ran (its marker in the cache) are compared. traces: '
                'random seeds / scripts / sigfields / allowed-flags bytes and signature flags (subsets of / bits outside the allowed byte) for all classes, and native vs non-native verdicts on adversarial '
                'witnesses of the C01 family and on witnesses that burn k calls before a committed script making d calls (both sides of the '
                'budget), judged by TLC. Key-spend signatures are made twice: by the builder and by the reference signer over the reference '
                'message with the independently derived root scalar, with all eight sigfields present.')
    rep.assumptions = ['symbolic algebra (hash collisions / discrete-log coincidences excluded)',
                       'witnesses compared native vs non-native use little call budget (the non-native lock spends 2 calls)']
    quick = tier == 'quick'
    scncheck.mc(rep, 'Taproot', 'mc', INV, run_mc, workers=4)
    import multiprocessing as mp
    n = 6000 if quick else 40000
    with SafePool(14) as pool:
        cases = [c for ch in pool.map(record_random, [(seed * 43 + i, n // 28) for i in range(28)]) for c in ch]
    scncheck.judge(rep, 'Taproot', [], cases, 'random taproot scenarios')
    return rep.finish()


def replay(path: str) -> int:
    import json
    obj = json.load(open(path))
    if obj.get('kind') == 'replay':
        got, _ = run_mc(obj['case'])
        print(got, 'expected', obj['case']['expect'])
        return 0 if got == obj['case']['expect'] else 1
    return 2
