------------------------------ MODULE TimeCore ------------------------------
(***************************************************************************)
(* The two time predicates, on unbounded integers (BigInt records).       *)
(*   CheckTs:    t >= c  and  (thr <= 0  or  t - now < thr)               *)
(*   CheckEpoch: c - now < thr                                            *)
(***************************************************************************)
EXTENDS BigInt

CheckTs(t, now, c, thr) ==
    /\ Leq(c, t)
    /\ (Leq(thr, Zero) \/ Less(Sub(t, now), thr))

CheckEpoch(c, now, thr) == Less(Sub(c, now), thr)
=============================================================================
