-------------------------------- MODULE Codec --------------------------------
(***************************************************************************)
(* The VM's data encodings (C10): signed integers as big-endian two's     *)
(* complement byte strings of any length (BigInt.DecS / EncS / ValidEnc)   *)
(* and IEEE-754 binary32 floats as 4 big-endian bytes.                     *)
(*                                                                         *)
(* Model checking: Init chooses a case of the family named by Family; the  *)
(* invariants state the inverse laws.  Every case is printed with the      *)
(* encoding / decoding the specification assigns, for replay through       *)
(* int_to_bytes / bytes_to_int / float_to_bytes / bytes_to_float.          *)
(* Trace mode (Family = "trace"): cases recorded from the implementation   *)
(* (TRACE_FILE) are judged one by one; failing ids are printed.            *)
(***************************************************************************)
EXTENDS BigInt, Float32, Json, IOUtils, TLC

CONSTANTS Family, Emit
VARIABLE c          \* the case: a record [kind, ...]

\* ---- families ---------------------------------------------------------------
Pow2Mag(k) == \* 2^k as a magnitude
    LET r == k % 8 q == k \div 8 IN <<2 ^ r>> \o [i \in 1..q |-> 0]
SmallD == -3..3
ExpClasses == 0..255
MantPatterns == {0, 1, 2, 3, 4194304, 4194305, 8388607, 8388606, 5592405, 2796202, 1048576, 65536, 256, 255, 127, 128}
                \cup {2 ^ k : k \in 0..22} \cup {8388607 - 2 ^ k : k \in 0..22}

Cases(z) ==
    CASE Family = "bytes12" -> { [kind |-> "dec", b |-> b] : b \in UNION {[1..k -> Byte] : k \in 1..2} }
      [] Family = "ints17"  -> { [kind |-> "enc", x |-> FromInt(n)] : n \in -131072..131072 }
      [] Family = "pow2"    -> { [kind |-> "enc", x |-> Add(MkInt(s = 1, Pow2Mag(k)), FromInt(d))] :
                                  k \in 0..512, d \in SmallD, s \in {0, 1} }
      [] Family = "f32"     -> { [kind |-> "f32", b |-> FPack(s, e, m)] : s \in {0, 1}, e \in ExpClasses, m \in MantPatterns }
      [] Family = "trace"   -> {}

TraceLog == JsonDeserialize(IOEnv.TRACE_FILE)

Init == IF Family = "trace" THEN c \in {[kind |-> "t", i |-> i] : i \in 1..Len(TraceLog)}
        ELSE c \in Cases(0)
Next == UNCHANGED c
Spec == Init /\ [][Next]_c

\* ---- laws ---------------------------------------------------------------------
\* decoding is total on non-empty strings and re-encoding gives a valid (minimal) encoding
DecLaw(b) == LET x == DecS(b) IN
             /\ ValidEnc(b, x) \/ Len(b) > Len(EncS(x)) + 1     \* b itself may be padded arbitrarily
             /\ DecS(EncS(x)) = x
             /\ Len(EncS(x)) <= Len(b)
             /\ (b[1] >= 128) = x.neg \/ IsZero(x)
EncLaw(x) == LET b == EncS(x) IN
             /\ DecS(b) = x
             /\ ValidEnc(b, x)
             /\ ((b[1] >= 128) <=> x.neg)
             /\ (Len(b) > 1 => ~((b[1] = 0 /\ b[2] < 128) \/ (b[1] = 255 /\ b[2] >= 128)))   \* minimal
F32Law(b) == FClass(b) \in {"nan", "inf"} \/ FEnc(FValue(b)) = b

InvLaws == CASE c.kind = "dec" -> DecLaw(c.b)
             [] c.kind = "enc" -> EncLaw(c.x)
             [] c.kind = "f32" -> F32Law(c.b)
             [] OTHER -> TRUE

\* what the specification assigns to a case (for replay)
Out == CASE c.kind = "dec" -> [kind |-> "dec", b |-> c.b, neg |-> DecS(c.b).neg, mag |-> DecS(c.b).mag, min |-> EncS(DecS(c.b))]
         [] c.kind = "enc" -> [kind |-> "enc", neg |-> c.x.neg, mag |-> c.x.mag, b |-> EncS(c.x)]
         [] c.kind = "f32" -> [kind |-> "f32", b |-> c.b, cls |-> FClass(c.b),
                                val |-> IF FClass(c.b) \in {"nan", "inf"} THEN <<FSign(c.b), 0, 0>> ELSE FValue(c.b)]
EmitCase == Family = "trace" \/ ~Emit \/ PrintT(ToJson(Out))

\* ---- trace cases: records from the implementation ---------------------------------
\*  [k |-> "i2b", neg, mag, b]        int_to_bytes(n) = b
\*  [k |-> "b2i", b, neg, mag]        bytes_to_int(b) = n
\*  [k |-> "b2f", b, cls, val]        bytes_to_float(b) has class cls and exact value val
\*  [k |-> "f2b", b, back]            float_to_bytes(bytes_to_float(b)) = back
\*  [k |-> "fit", lim, neg, mag, b]   an integer instruction whose exact result is n ran under the item limit lim
\*                                    and left b (<<>>: it failed): it succeeds iff n fits the limit
TraceOK(t) ==
    CASE t.k = "i2b" -> ValidEnc(t.b, MkInt(t.neg, t.mag))
      [] t.k = "b2i" -> DecS(t.b) = MkInt(t.neg, t.mag)
      [] t.k = "b2f" -> /\ t.cls = FClass(t.b)
                        /\ (t.cls \in {"nan"} \/ (t.cls = "inf" /\ t.val[1] = FSign(t.b)) \/ t.val = FValue(t.b))
      [] t.k = "f2b" -> IF FClass(t.b) = "nan" THEN FClass(t.back) = "nan" ELSE t.back = t.b
      [] t.k = "fit" -> LET x == MkInt(t.neg, t.mag) IN
                        IF Len(EncS(x)) <= t.lim THEN t.b # <<>> /\ ValidEnc(t.b, x) /\ Len(t.b) <= t.lim
                        ELSE t.b = <<>>
TraceCheck == Family # "trace" \/ TraceOK(TraceLog[c.i]) \/ PrintT(ToJson([bad |-> c.i]))
=============================================================================
