------------------------------ MODULE Multisig ------------------------------
(***************************************************************************)
(* OP_CHECK_MULTISIG (C03): the operational greedy matcher as a state     *)
(* machine - one action per comparison of a signature with a remaining    *)
(* key - against the declarative quorum: m signatures, each valid, from m *)
(* DIFFERENT listed keys.                                                  *)
(*                                                                         *)
(* A scenario: the keys in the order the instruction tries them, and the  *)
(* signatures in the order it takes them.  A signature is                  *)
(* [signer, cls]: signer = a listed key 1..n or the outsider 9;            *)
(* cls = "f0" (64 bytes, no flag), "perm" (permitted flag byte), "nonperm" *)
(* (flag byte with a bit the operand does not allow), "bad" (malformed     *)
(* length).  Two entries with equal [signer, cls] are byte-identical.      *)
(***************************************************************************)
EXTENDS Integers, Sequences, FiniteSets, Json, IOUtils, TLC

CONSTANTS Family, Emit, MaxN
VARIABLES sc, si, ki, rem, conf, res

vars == <<sc, si, ki, rem, conf, res>>

Outsider == 9
Classes == {"f0", "perm", "nonperm", "bad"}
Sigs(n) == [signer : (1..n) \cup {Outsider}, cls : {"f0", "perm", "nonperm"}] \cup {[signer |-> 1, cls |-> "bad"]}
Seqs(S, k) == [1..k -> S]
KeyOrders(n) == {[i \in 1..n |-> i], [i \in 1..n |-> n + 1 - i]}
                \cup (IF n >= 3 THEN {[i \in 1..n |-> IF i = 1 THEN 2 ELSE IF i = 2 THEN 1 ELSE i]} ELSE {})

TraceLog == IF Family = "trace" THEN JsonDeserialize(IOEnv.TRACE_FILE) ELSE <<>>
ScOfTrace(t) == [n |-> t.n, m |-> t.m, keys |-> t.keys, sigs |-> t.sigs, tid |-> t.tid]

\* A model-checking scenario starts with (n, m, key order) and no signatures; the m signatures are chosen one at a
\* time by the action Pick (res = "setup"), so that the enumeration of all signature sequences is part of the
\* (parallel) state-space search and not of the (sequential) computation of initial states.
Scenarios(z) ==
    IF Family = "trace" THEN { ScOfTrace([TraceLog[i] EXCEPT !.tid = i]) : i \in 1..Len(TraceLog) }
    ELSE UNION { { [n |-> n, m |-> m, keys |-> ko, sigs |-> <<>>, tid |-> 0] : ko \in KeyOrders(n) }
                 : n \in 0..MaxN, m \in 0..MaxN }

Init == /\ sc \in { s \in Scenarios(0) : s.m <= s.n \/ Family = "trace" }
        /\ si = 1 /\ ki = 1 /\ rem = sc.keys /\ conf = {}
        /\ res = (IF Family = "trace" \/ sc.m = 0 THEN "run" ELSE "setup")
Pick == /\ res = "setup"
        /\ \E s \in Sigs(sc.n) : /\ sc' = [sc EXCEPT !.sigs = Append(@, s)]
                                  /\ res' = (IF Len(sc.sigs) + 1 = sc.m THEN "run" ELSE "setup")
        /\ UNCHANGED <<si, ki, rem, conf>>

Valid(sig, key) == sig.cls \in {"f0", "perm"} /\ sig.signer = key
Raises(sig) == sig.cls \in {"nonperm", "bad"}
RemoveAt(s, i) == SubSeq(s, 1, i - 1) \o SubSeq(s, i + 1, Len(s))

Finish == /\ res = "run" /\ si > sc.m
          /\ res' = IF Cardinality(conf) = sc.m THEN "true" ELSE "false"
          /\ UNCHANGED <<sc, si, ki, rem, conf>>
NextSig == /\ res = "run" /\ si <= sc.m /\ ki > Len(rem)           \* no remaining key verified this signature
           /\ si' = si + 1 /\ ki' = 1 /\ UNCHANGED <<sc, rem, conf, res>>
Compare == /\ res = "run" /\ si <= sc.m /\ ki <= Len(rem)
           /\ LET sig == sc.sigs[si] key == rem[ki] IN
              IF Raises(sig) THEN res' = "error" /\ UNCHANGED <<sc, si, ki, rem, conf>>
              ELSE IF Valid(sig, key)
                   THEN /\ rem' = RemoveAt(rem, ki) /\ conf' = conf \cup {sig} /\ si' = si + 1 /\ ki' = 1
                        /\ UNCHANGED <<sc, res>>
                   ELSE ki' = ki + 1 /\ UNCHANGED <<sc, si, rem, conf, res>>
Next == Pick \/ Finish \/ NextSig \/ Compare
Spec == Init /\ [][Next]_vars

\* ---- the declarative quorum ---------------------------------------------------------------
Listed(s) == {s.keys[i] : i \in 1..Len(s.keys)}
Quorum(s) == /\ \A i \in 1..s.m : s.sigs[i].cls \in {"f0", "perm"} /\ s.sigs[i].signer \in Listed(s)
             /\ \A i, j \in 1..s.m : i # j => s.sigs[i].signer # s.sigs[j].signer
DistinctSigners(s) == Cardinality({s.sigs[i].signer : i \in {j \in 1..s.m : s.sigs[j].cls \in {"f0", "perm"} /\ s.sigs[j].signer \in Listed(s)}})

\* ---- invariants -------------------------------------------------------------------------------
Done == res \notin {"run", "setup"}
TrueIffQuorum == Done => ((res = "true") <=> Quorum(sc))
\* fewer than m distinct listed signers never pass
FewerNeverPass == (Done /\ DistinctSigners(sc) < sc.m) => res # "true"
\* a matched key is never used twice; confirmations never exceed signatures examined
KeysUsedOnce == Len(rem) + Cardinality(conf) <= Len(sc.keys) /\ Cardinality(conf) < si
TypeOK == res \in {"setup", "run", "true", "false", "error"} /\ si \in 1..(sc.m + 1) /\ ki \in 1..(Len(rem) + 1)

Out == [n |-> sc.n, m |-> sc.m, keys |-> sc.keys, sigs |-> sc.sigs, expect |-> res]
\* with MaxN >= 5 only a deterministic sample of the scenarios is printed for replay (all of them are model-checked)
ClsIx(cl) == CASE cl = "f0" -> 1 [] cl = "perm" -> 2 [] cl = "nonperm" -> 3 [] OTHER -> 4
RECURSIVE SigSum(_, _)
SigSum(ss, i) == IF i > Len(ss) THEN 0 ELSE i * (ss[i].signer + 7 * ClsIx(ss[i].cls)) + SigSum(ss, i + 1)
Sampled(s) == MaxN <= 4 \/ s.m <= 3 \/ (SigSum(s.sigs, 1) + s.keys[1]) % 61 = 0
EmitCase == Family = "trace" \/ ~Done \/ ~Emit \/ ~Sampled(sc) \/ PrintT(ToJson(Out))
\* trace scenarios carry the implementation's outcome `got`
TraceCheck == Family # "trace" \/ ~Done \/
              PrintT(ToJson([i |-> sc.tid, v |-> IF TraceLog[sc.tid].got = res THEN "ok" ELSE "verdict:" \o res]))
=============================================================================
