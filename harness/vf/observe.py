"""Harness-side observation of the unmodified tapescript VM.

`Recorder` wraps - inside this process only - every entry of the dispatch
tables `functions.opcodes` / `functions.nopcodes`, the module-level
`run_tape` and `set_tape_flags`, `token_bytes` and `time`, and produces one
event per linearization point of the specification (TapeVM.Step):

  op     an instruction that started no sub-tape finished (or raised)
  enter  run_tape started on a (sub-)tape (after its flags were initialised)
  post   an instruction that ran sub-tapes finished (or raised something new)
  end    the API call returned / raised

Every event carries the projected state after it: number of active tapes, the
running tape's pointer, stack delta, byte-keyed cache delta, whether the
interpreter's `returned` key is set, any change to other string keys, the
exception class, the cumulative number of signature-extension plugin calls,
the running tape's flags when they changed, whether the running tape sees the
run's plugins / contracts - plus the hints the spec needs (OP_RANDOM output,
reference results of data primitives, serialised error text).
"""
from __future__ import annotations
import collections, copy, importlib, random, sys
from .ref import opsem

ADOPT_OPS = set()         # (no instruction's outcome is adopted from the log any more: CHECK_TRANSFER runs on the reference contract)
MAX_ALLOC = 1 << 22           # token_bytes beyond this is refused (and recorded)


def _depth():
    f, n = sys._getframe(), 0
    while f is not None:
        f, n = f.f_back, n + 1
    return n


def fkey(k):
    if isinstance(k, bool):
        return {'t': 'i', 's': '', 'b': [int(k)]}
    if isinstance(k, int):
        return {'t': 'i', 's': '', 'b': [k]}
    if isinstance(k, str):
        return {'t': 's', 's': k, 'b': []}
    if isinstance(k, (bytes, bytearray)):
        return {'t': 'b', 's': '', 'b': list(k)}
    return {'t': 's', 's': repr(k), 'b': []}


def fval(v):
    if isinstance(v, bool):
        return int(v)
    if isinstance(v, int):
        return max(-2**30, min(2**30, v))
    return 1 if v else 0


def flags_ser(d: dict) -> list:
    return [[fkey(k), fval(v)] for k, v in d.items()]


def sc_entry(k: str, v, nested: bool = False):
    kb = list(k.encode('utf-8'))
    e = {'k': kb, 't': 'other', 'v': [], 'neg': False, 'items': []}
    if isinstance(v, bytes):
        e.update(t='bytes', v=list(v))
    elif isinstance(v, bytearray):
        e.update(t='bytearray', v=list(v))
    elif isinstance(v, bool):
        pass
    elif isinstance(v, int):
        mag = abs(v)
        e.update(t='int', v=list(mag.to_bytes((mag.bit_length() + 7) // 8, 'big')), neg=v < 0)
    elif isinstance(v, str):
        e.update(t='str', v=list(v.encode('utf-8')))
    elif isinstance(v, float):
        import struct
        try:
            e.update(t='float', v=list(struct.pack('!f', v)))
        except OverflowError:
            e.update(t='floatoverflow')
    elif isinstance(v, (list, tuple)) and not nested:
        e.update(t='list', items=[sc_entry('', x, True) for x in v])
    return e


def bc_val(v):
    """(is_list, items) for a byte-keyed cache value; items are byte strings"""
    if isinstance(v, (list, tuple)):
        return True, [list(x) if isinstance(x, (bytes, bytearray)) else [999] for x in v]
    if isinstance(v, (bytes, bytearray)):
        return False, [list(v)]
    return False, [[999, 999]]


class _WatchDeque(collections.deque):
    """deque that reports item-count / item-size high-water marks to the recorder, so a
    path that bypasses Stack.put (or a maxlen drop) is seen inside an instruction"""
    rec = None

    def _note(self, item=None):
        r = self.rec
        if r is not None:
            if len(self) > r.hw_items:
                r.hw_items = len(self)
            if item is not None and isinstance(item, (bytes, bytearray)) and len(item) > r.hw_item_size:
                r.hw_item_size = len(item)

    def append(self, item):
        if self.maxlen is not None and len(self) >= self.maxlen and self.rec is not None:
            self.rec.dropped += 1
        super().append(item)
        self._note(item)

    def appendleft(self, item):
        super().appendleft(item)
        self._note(item)

    def extend(self, items):
        for it in items:
            self.append(it)

    def __setitem__(self, i, item):
        super().__setitem__(i, item)
        self._note(item)

    def insert(self, i, item):
        super().insert(i, item)
        self._note(item)


class HarnessAbort(BaseException):
    """Raised into the implementation when an execution exceeds the step budget (a loop that
    does not end); the trace recorded so far is marked truncated."""


class Recorder:
    def __init__(self, now: int = 1_700_000_000, seed: int = 0, watch_alloc: bool = False):
        import tapescript.functions as F
        import tapescript.tools as T
        self.F, self.T = F, T
        self.now = now
        self.seed = seed
        self.rng = random.Random(seed)
        self.installed = False
        self.saved = {}
        self.max_token_req = 0
        self.reset()

    # ------------------------------------------------------------------ run state
    def reset(self):
        self.events = []
        self.hist = []
        self.script_idx = 1
        self.final_stack = []
        self.final_cache = {}
        self.ret0_changed = False
        self.fstack = []          # active run_tape invocations (tapes)
        self.opstack = []         # active instruction invocations
        self.cur_exc = None
        self.stack_obj = None
        self.cache_obj = None
        self.prev_stack = []
        self.prev_bc = {}
        self.sc0 = {}
        self.plug_calls = 0
        self.top_plugins = None
        self.top_contracts = None
        self.shadow_flags = {}
        self.keepalive = []
        self.first_enter = True
        self.last_rand = b''
        self.ct_results = []
        self.nsteps = 0
        self.max_events = 20000
        self.max_steps = 60000
        self.aborted = False
        self.truncated = False
        self.hw_items = 0
        self.main_stack = None
        self.dropped = 0
        self.step_alloc = 0
        self.extra = 0
        self.base_limit = sys.getrecursionlimit()
        self.contracts = getattr(self, 'contracts', {})
        self.hw_item_size = 0

    # ------------------------------------------------------------------ install
    def install(self):
        if self.installed:
            return
        F = self.F
        self.saved = {
            'opcodes': dict(F.opcodes), 'nopcodes': dict(F.nopcodes),
            'run_tape': F.run_tape, 'set_tape_flags': F.set_tape_flags,
            'token_bytes': F.token_bytes, 'time': F.time, 'ttime': getattr(self.T, 'time', None),
            'run_plugins': F.run_plugins,
        }
        for table in (F.opcodes, F.nopcodes):
            for code, (name, fn) in list(table.items()):
                table[code] = (name, self._wrap_op(code, fn))
        F.run_tape = self._wrap_run_tape(F.run_tape)
        F.set_tape_flags = self._wrap_set_flags(F.set_tape_flags)
        F.token_bytes = self._token_bytes
        F.time = lambda: self.now
        if self.saved['ttime'] is not None:
            self.T.time = lambda: self.now
        F.run_plugins = self._wrap_run_plugins(F.run_plugins)
        recorder = self
        OrigStack = F.Stack
        self.saved['Stack'] = OrigStack

        class WatchedStack(OrigStack):
            def __init__(self, *a, **k):
                super().__init__(*a, **k)
                # only the run's own stack is watched: instructions may use scratch Stack objects
                # (OP_CHECK_TEMPLATE builds one with default limits for the plugin call)
                if recorder.main_stack is None:
                    d = _WatchDeque(self.deque, maxlen=self.deque.maxlen)
                    d.rec = recorder
                    self.deque = d
                    recorder.main_stack = self
        F.Stack = WatchedStack
        self.installed = True

    def uninstall(self):
        if not self.installed:
            return
        F = self.F
        F.opcodes.clear(); F.opcodes.update(self.saved['opcodes'])
        F.nopcodes.clear(); F.nopcodes.update(self.saved['nopcodes'])
        F.run_tape = self.saved['run_tape']
        F.set_tape_flags = self.saved['set_tape_flags']
        F.token_bytes = self.saved['token_bytes']
        F.time = self.saved['time']
        if self.saved['ttime'] is not None:
            self.T.time = self.saved['ttime']
        F.run_plugins = self.saved['run_plugins']
        F.Stack = self.saved['Stack']
        self.installed = False

    # ------------------------------------------------------------------ wrappers
    def _token_bytes(self, n):
        self.max_token_req = max(self.max_token_req, n if isinstance(n, int) else 0)
        self.step_alloc = max(self.step_alloc, min(n, 2**30) if isinstance(n, int) else 0)
        if isinstance(n, int) and n > MAX_ALLOC:
            raise MemoryError(f'token_bytes({n}) refused by the verification harness')
        if isinstance(n, int) and n < 0:
            raise ValueError('negative argument not allowed')
        self.last_rand = self.rng.randbytes(n)
        return self.last_rand

    # The wrappers add Python frames of their own.  So that observation never
    # induces (or hides) a RecursionError, the interpreter's recursion limit is
    # raised by exactly the number of wrapper frames currently active: the
    # wrapped code keeps the headroom it would have without the harness.
    def _frames(self, delta):
        self.extra += delta
        sys.setrecursionlimit(self.base_limit + self.extra)

    def _wrap_run_plugins(self, orig):
        def run_plugins(scope, tape, stack, cache):
            self._frames(+1)
            try:
                res = orig(scope, tape, stack, cache)
            finally:
                self._frames(-1)
            if scope == 'signature_extensions':
                self.plug_calls += len(res)
            elif scope == 'check_template':
                self.ct_results.append(bool(any(res)) if len(res) else None)
            return res
        return run_plugins

    def _wrap_set_flags(self, orig):
        def set_tape_flags(tape, additional_flags={}):
            self._frames(+1)
            try:
                r = orig(tape, additional_flags)
            finally:
                self._frames(-1)
            if self.fstack and self.fstack[-1].get('pending') and self.fstack[-1]['tape'] is tape:
                self.fstack[-1]['pending'] = False
                self._on_enter(tape)
            return r
        return set_tape_flags

    def _wrap_run_tape(self, orig):
        def run_tape(tape, stack, cache, additional_flags={}):
            self.stack_obj, self.cache_obj = stack, cache
            self.fstack.append({'tape': tape, 'pending': True})
            self.keepalive.append(tape)
            self._frames(+1)
            try:
                return orig(tape, stack, cache, additional_flags=additional_flags)
            finally:
                self._frames(-1)
                self.fstack.pop()
        return run_tape

    def _wrap_op(self, code, fn):
        def op(tape, stack, cache):
            if self.nsteps > self.max_steps:
                self.truncated = True
                self.aborted = True
                raise HarnessAbort(f'more than {self.max_steps} steps')
            self.stack_obj, self.cache_obj = stack, cache
            rec = {'entered': False, 'code': code, 'prim': None}
            self.hist.append((self.script_idx, len(self.fstack), tape.pointer - 1, code))
            try:
                rec['prim'] = opsem.prims(code, tape.data, tape.pointer, list(stack.deque), self.sc0, self.contracts)
            except Exception as e:    # pragma: no cover
                rec['prim'] = [{'n': 'REFERROR', 'a': [], 'r': [], 'e': repr(e)}]
            self.opstack.append(rec)
            self.last_rand = b''
            self.ct_results = []
            self._frames(+1)
            try:
                fn(tape, stack, cache)
            except BaseException as e:
                self._frames(-1)
                self.opstack.pop()
                if e is not self.cur_exc:
                    self.cur_exc = e
                    self._emit('post' if rec['entered'] else 'op', rec, exc=e)
                raise
            else:
                self._frames(-1)
                self.opstack.pop()
                self._emit('post' if rec['entered'] else 'op', rec)
        op.__wrapped__ = fn
        return op

    # ------------------------------------------------------------------ events
    def _on_enter(self, tape):
        if self.top_plugins is None:
            self.top_plugins = tape.plugins
            self.top_contracts = tape.contracts
        if self.first_enter:
            self.first_enter = False      # the first tape is the spec's initial state
            return
        if not self.opstack:
            self.script_idx += 1          # run_tape called by run_auth_scripts: next script
        rec = self.opstack[-1] if self.opstack else None
        for r in self.opstack:
            r['entered'] = True
        self.cur_exc = None
        self._emit('enter', rec, tape=tape)

    def _emit(self, kind, rec, exc=None, tape=None, verdict=None):
        self.nsteps += 1
        if len(self.events) >= self.max_events:
            self.truncated = True
            return
        stack = list(self.stack_obj.deque) if self.stack_obj is not None else []
        cache = self.cache_obj if self.cache_obj is not None else {}
        keep = 0
        while keep < len(stack) and keep < len(self.prev_stack) and stack[keep] == self.prev_stack[keep]:
            keep += 1
        if kind == 'end':
            keep, pushed = len(self.prev_stack), []
        else:
            pushed = [list(x) if isinstance(x, (bytes, bytearray)) else [999] for x in stack[keep:]]
            self.prev_stack = stack
        bc = {k: v for k, v in cache.items() if isinstance(k, (bytes, bytearray))}
        cw, cd = [], []
        for k, v in bc.items():
            if k not in self.prev_bc or self.prev_bc[k] != v or type(self.prev_bc[k]) is not type(v):
                l, items = bc_val(v)
                cw.append([list(k), l, items])
        for k in self.prev_bc:
            if k not in bc:
                cd.append(list(k))
        self.prev_bc = {k: (list(v) if isinstance(v, list) else v) for k, v in bc.items()}
        skeys = {k: v for k, v in cache.items() if not isinstance(k, (bytes, bytearray)) and k != 'returned'}
        sdelta = not (skeys.keys() == self.sc0.keys() and all(type(skeys[k]) is type(self.sc0[k]) and skeys[k] == self.sc0[k] for k in skeys))
        cur = self.fstack[-1]['tape'] if self.fstack else None
        flc, fl = False, []
        if cur is not None:
            sh = self.shadow_flags.get(id(cur))
            if kind == 'enter' or sh is None or sh != cur.flags:
                flc, fl = True, flags_ser(cur.flags)
                self.shadow_flags[id(cur)] = dict(cur.flags)
        prim = []
        adopt = False
        if rec is not None and kind in ('op', 'enter') and rec.get('prim') is not None:
            prim = rec['prim']
            rec['prim'] = None
            adopt = rec['code'] in ADOPT_OPS and kind == 'op'
        etext = []
        if kind == 'enter' and b'E' in bc and isinstance(bc[b'E'], list) and bc[b'E'] and \
                isinstance(bc[b'E'][0], (bytes, bytearray)):
            etext = list(bc[b'E'][0])
        ev = {
            'k': kind, 'd': len(self.fstack), 'pc': cur.pointer if cur is not None else -1,
            'keep': keep, 'pushed': pushed, 'cw': cw, 'cd': cd,
            'ret': 'returned' in cache, 'exc': type(exc).__name__ if exc is not None else '',
            'plug': self.plug_calls, 'flc': flc, 'fl': fl, 'sdelta': bool(sdelta),
            'hplug': bool(cur is not None and cur.plugins == self.top_plugins),
            'hcontr': bool(cur is not None and cur.contracts == self.top_contracts),
            'code': list(tape.data) if tape is not None else [],
            'cnt': tape.callstack_count if tape is not None else 0,
            'verdict': bool(verdict) if verdict is not None else False,
            'top': (list(stack[-1]) if stack and isinstance(stack[-1], (bytes, bytearray)) and kind != 'end' else []),
            'alloc': self.step_alloc, 'hwi': self.hw_items, 'hws': self.hw_item_size,
            'op': rec['code'] if rec is not None else -1,
            'h': {'rand': list(self.last_rand) if kind == 'op' else [], 'prim': prim,
                  'etext': etext, 'ct': [bool(x) for x in self.ct_results if x is not None],
                  'adopt': adopt},
        }
        self.events.append(ev)
        self.step_alloc = 0
        self.hw_items = 0
        self.hw_item_size = 0

    # ------------------------------------------------------------------ driving
    def run(self, scripts: list, cache_vals: dict | None = None, *, auth: bool = False,
            contracts: dict | None = None, plugins: dict | None = None,
            additional_flags: dict | None = None, max_items: int = 1024,
            max_item_size: int = 1024, callstack_limit: int = 128,
            nsig: int = 0, nct: int = 0, forks: dict | None = None, ident=None,
            keep_state: bool = False) -> dict:
        """Run through the public API under observation; return one trace record."""
        F = self.F
        self.reset()
        self.rng = random.Random(f'{self.seed}/{ident}')
        cache_vals = dict(cache_vals or {})
        self.sc0 = copy.deepcopy({k: v for k, v in {'timestamp': self.now, **cache_vals}.items()
                                  if not isinstance(k, (bytes, bytearray)) and k != 'returned'})
        bc0 = {k: v for k, v in cache_vals.items() if isinstance(k, (bytes, bytearray))}
        self.prev_bc = {k: (list(v) if isinstance(v, list) else v) for k, v in bc0.items()}
        contracts = contracts or {}
        plugins = plugins or {}
        self.contracts = contracts
        kw = dict(cache_vals=cache_vals, contracts=contracts, plugins=plugins,
                  stack_max_items=max_items, stack_max_item_size=max_item_size,
                  callstack_limit=callstack_limit)
        verdict, exc = None, None
        from . import softfork
        fork_ctx = softfork.installed(forks or {})
        fork_ctx.__enter__()
        self.install()
        old_limit = sys.getrecursionlimit()
        # the embedder is assumed to call from a shallow stack (depth 20)
        self.base_limit = old_limit + max(0, _depth() - 20) + 40   # +40: transient harness frames (_emit, json-free)
        self.extra = 0
        sys.setrecursionlimit(self.base_limit)
        try:
            if auth:
                verdict = F.run_auth_scripts(list(scripts), **kw)
            else:
                F.run_script(scripts[0], additional_flags=dict(additional_flags or {}), **kw)
        except BaseException as e:
            if isinstance(e, (KeyboardInterrupt, SystemExit)):
                raise
            exc = e
        finally:
            sys.setrecursionlimit(old_limit)
            self.uninstall()
            fork_ctx.__exit__(None, None, None)
        # the end event: nothing is running any more
        self.fstack = []
        self.final_stack = list(self.stack_obj.deque) if self.stack_obj is not None else []
        self.final_cache = dict(self.cache_obj) if self.cache_obj is not None else dict(cache_vals)
        self.ret0_changed = 'returned' in cache_vals and (
            'returned' not in self.final_cache or self.final_cache['returned'] is not cache_vals['returned'])
        if exc is not None and exc is not self.cur_exc:
            api_exc = exc          # raised by the API itself, not by an instruction
        else:
            api_exc = None
        self._emit('end', None, exc=self.cur_exc, verdict=verdict)
        cfg = {
            'scripts': [list(bytes(s)) for s in scripts], 'auth': bool(auth),
            'maxItems': max_items, 'maxItemSize': max_item_size, 'callLimit': callstack_limit,
            'sc': [sc_entry(k, v) for k, v in self.sc0.items() if isinstance(k, str)],
            'bc0': [[list(k), *bc_val(v)] for k, v in bc0.items()],
            'defaults': flags_ser(F.flags), 'toset': [fkey(k) for k in F.flags_to_set], 'flags': flags_ser(additional_flags or {}) if not auth else [],
            'nsig': nsig, 'nct': nct, 'contracts': [list(k) for k in contracts],
            'now': list(self.now.to_bytes(8, 'big').lstrip(b'\0')),
            'forks': [[c, k] for c, k in (forks or {}).items()],
            'ret0': 'returned' in cache_vals,
        }
        return {'id': ident if ident is not None else '', 'cfg': cfg, 'ev': self.events,
                'outcome': {'verdict': verdict, 'raised': type(exc).__name__ if exc is not None else '',
                            'api_exc': type(api_exc).__name__ if api_exc is not None else '',
                            'truncated': self.truncated, 'aborted': self.aborted, 'max_token_req': self.max_token_req,
                            'steps': self.nsteps}}
