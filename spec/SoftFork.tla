------------------------------ MODULE SoftFork ------------------------------
(***************************************************************************)
(* Soft-fork safety (C20).  Two copies of the VM run the same scripts in  *)
(* lockstep: vu without the fork (the opcode is an unassigned NOP) and vf *)
(* with an op installed at that code which reads the count byte, removes  *)
(* `count` items and may raise depending on a predicate over the removed  *)
(* items.  While the forked op has not raised both machines are in the    *)
(* same state (Simulation); hence a script list that authorizes on the    *)
(* upgraded VM and never executes the forked op inside a TRY body also    *)
(* authorizes on the old VM (ForkImpliesOld).                              *)
(***************************************************************************)
EXTENDS TapeVM, Isa, Json, SequencesExt

CONSTANTS Bound, Emit
VARIABLES vu, vf, diverged, tryWrapped

T == <<1>>
F == <<0>>
Mk(j) == <<2, j>>
RAISE == <<0, 32>>
VERIFY == <<32>>
POP0 == <<6>>
CALL(h) == <<42, h>>
EVAL == <<45>>
IFB(b) == IBlock(43, b)
TRY(a, b) == IBlock2(61, a, b)
LOOP(b) == IBlock(69, b)
DEFN(h, b) == IDef(h, b)
Cat(S, U) == {a \o b : a \in S, b \in U}

Fk(c, n) == <<c, n>>
Atoms(c) == { Mk(5), T, F, VERIFY, POP0, Fk(c, 0), Fk(c, 1), Fk(c, 2), Fk(c, 255), Fk(c, 128),
              T \o IFB(Fk(c, 1)), DEFN(0, Fk(c, 1)) \o CALL(0), TRY(Fk(c, 1), T), TRY(Fk(c, 1), Fk(c, 0)),
              IPush(Fk(c, 1)) \o EVAL, T \o LOOP(Fk(c, 1) \o F), <<c>>, Mk(255), <<>> \o Mk(0) }
RECURSIVE Progs(_, _)
Progs(A, n) == IF n = 0 THEN {<<>>} ELSE LET R == Progs(A, n - 1) IN R \cup Cat(R, A)

Kinds == {"never", "always", "alltrue", "nonempty", "topff"}
Codes == {92, 200, 255}
Witnesses(z) == { <<>>, Mk(255), Mk(0), T, Mk(255) \o Mk(255) }

CfgU(ss) == [BaseCfg EXCEPT !.scripts = ss, !.auth = TRUE, !.hist = TRUE, !.maxItems = 8, !.maxItemSize = 8, !.callLimit = 3]
CfgF(ss, c, k) == [CfgU(ss) EXCEPT !.forks = [x \in {c} |-> k]]

Init == \E c \in Codes : \E k \in Kinds, w \in Witnesses(0), p \in Progs(Atoms(c), Bound) :
          /\ vu = InitVM(CfgU(<<w, p>>))
          /\ vf = InitVM(CfgF(<<w, p>>, c, k))
          /\ diverged = FALSE
          /\ tryWrapped = FALSE

\* is the forked machine about to execute the forked op?
AtFork(v) == /\ v.status = "run" /\ ~Bad(v) /\ StepKind(v) = "exec"
             /\ TT(v).code[TT(v).pc + 1] \in DOMAIN v.cfg.forks
InTry(v) == \E i \in 1..Len(v.frames) : v.frames[i].kind = "try"

Next == /\ (vu.status = "run" \/ vf.status = "run")
        /\ vu' = Step(vu, NoHint)
        /\ vf' = Step(vf, NoHint)
        /\ tryWrapped' = (tryWrapped \/ (AtFork(vf) /\ InTry(vf)))
        /\ diverged' = (diverged \/ (AtFork(vf) /\ ~Bad(Step(vu, NoHint)) /\ Bad(vf')))
Spec == Init /\ [][Next]_<<vu, vf, diverged, tryWrapped>>

\* everything a script or the embedder can observe, and the control state
Proj(v) == [frames |-> v.frames, tapes |-> v.tapes, stack |-> v.stack, bc |-> v.bc, ret |-> v.ret,
            fheap |-> v.fheap, dheap |-> v.dheap, status |-> v.status, exc |-> v.exc, sidx |-> v.sidx]

Simulation == ~diverged => Proj(vf) = Proj(vu)
ForkImpliesOld == (vu.status # "run" /\ vf.status # "run" /\ ~tryWrapped) => (Verdict(vf) => Verdict(vu))
\* the fork can only turn an acceptance into a rejection at the forked op itself
DivergeOnlyByRaise == diverged => (tryWrapped \/ vf.status # "done" \/ ~Verdict(vf))

Summary == [scripts |-> vf.cfg.scripts, code |-> CHOOSE c \in DOMAIN vf.cfg.forks : TRUE,
            kind |-> vf.cfg.forks[CHOOSE c \in DOMAIN vf.cfg.forks : TRUE],
            lim |-> <<vf.cfg.maxItems, vf.cfg.maxItemSize, vf.cfg.callLimit>>,
            verdictF |-> Verdict(vf), verdictU |-> Verdict(vu), excF |-> vf.exc, excU |-> vu.exc,
            stackF |-> vf.stack, stackU |-> vu.stack, histF |-> vf.obs.hist, histU |-> vu.obs.hist,
            tryWrapped |-> tryWrapped, diverged |-> diverged]
EmitDone == (vu.status = "run" \/ vf.status = "run") \/ ~Emit \/ PrintT(ToJson(Summary))
=============================================================================
