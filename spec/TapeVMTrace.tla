----------------------------- MODULE TapeVMTrace -----------------------------
(***************************************************************************)
(* Trace validation: are executions recorded from the implementation      *)
(* behaviours of TapeVM?                                                   *)
(*                                                                         *)
(* The file named by the environment variable TRACE_FILE holds a JSON     *)
(* array of traces [cfg |-> ..., ev |-> <<event, ...>>].  Each event is   *)
(* one linearization point (see TapeVM.Step) and carries the projected    *)
(* state of the implementation after it.  For every trace the spec's      *)
(* transition function is applied to the spec state, with the hints of    *)
(* the event, and the result must agree with the event in every clause.   *)
(* A trace that is not accepted stops at the first disagreeing event and  *)
(* reports the failing clauses (total verdicts, no counterexample         *)
(* needed); all invariants of TapeVM are evaluated on every visited state.*)
(***************************************************************************)
EXTENDS TapeVM, Json, IOUtils

VARIABLES vm, l, tid, verdict, nres

TraceLog == JsonDeserialize(IOEnv.TRACE_FILE)

FnOf(pairs) == [k \in {pairs[i][1] : i \in 1..Len(pairs)} |->
                  pairs[CHOOSE i \in 1..Len(pairs) : pairs[i][1] = k][2]]

CacheOf(entries) == [k \in {entries[i][1] : i \in 1..Len(entries)} |->
                        LET e == entries[CHOOSE i \in 1..Len(entries) : entries[i][1] = k]
                        IN [l |-> e[2], v |-> e[3]]]

CfgOf(c) == [scripts |-> c.scripts, auth |-> c.auth, maxItems |-> c.maxItems,
             maxItemSize |-> c.maxItemSize, callLimit |-> c.callLimit, sc |-> c.sc,
             bc0 |-> CacheOf(c.bc0), defaults |-> FnOf(c.defaults), toset |-> {c.toset[i] : i \in 1..Len(c.toset)},
             flags |-> FnOf(c.flags),
             nsig |-> c.nsig, nct |-> c.nct,
             contracts |-> {c.contracts[i] : i \in 1..Len(c.contracts)},
             now |-> c.now, forks |-> FnOf(c.forks), ret0 |-> c.ret0, hist |-> FALSE]

HintOf(ev) == [rand |-> ev.h.rand, prim |-> ev.h.prim, pushed |-> ev.pushed, top |-> ev.top,
               etext |-> ev.h.etext, abi |-> <<>>, ct |-> ev.h.ct, adopt |-> ev.h.adopt]

ApplyDelta(bc, cw, cd) ==
    LET W == CacheOf(cw)
        D == {cd[i] : i \in 1..Len(cd)}
    IN [k \in (DOMAIN bc \cup DOMAIN W) \ D |-> IF k \in DOMAIN W THEN W[k] ELSE bc[k]]

\* the logged pointer lies within the running tape (a pointer outside it is never adopted: it is a `bounds` failure)
LogPcOk(v, ev) == ev.pc >= 0 /\ ev.pc <= Len(TT(v).code)

\* the logged kept-prefix length lies within the stack the specification has (a longer one is a `stack` failure)
SafeKeep(v, ev) == IF ev.keep <= Len(v.stack) THEN ev.keep ELSE Len(v.stack)

\* the implementation's outcome adopted for one instruction whose data
\* primitive the harness could not supply (counted as a resync by the driver)
Adopt(v, ev) ==
    LET a == [v EXCEPT !.stack = SubSeq(v.stack, 1, SafeKeep(v, ev)) \o ev.pushed,
                       !.bc = ApplyDelta(v.bc, ev.cw, ev.cd),
                       !.exc = IF ev.exc = "" THEN "none" ELSE ev.exc]
    IN [a EXCEPT !.tapes[Tid(v)].pc = IF LogPcOk(v, ev) THEN ev.pc ELSE TT(v).pc]

Expected(v, ev) == IF ev.h.adopt /\ StepKind(v) = "exec" THEN Adopt(v, ev) ELSE Step(v, HintOf(ev))

\* an exception class the spec leaves open ("Exception") matches any class
ExcMatch(specExc, logExc) ==
    \/ specExc = "none" /\ logExc = ""
    \/ specExc = "Exception" /\ logExc # ""
    \/ specExc = logExc

Failing(v, w, ev) ==
    (IF Len(w.frames) = ev.d THEN {} ELSE {"depth"})
    \cup (IF w.frames = <<>> \/ TT(w).pc = ev.pc THEN {} ELSE {"pc"})
    \cup (IF ev.keep <= Len(v.stack) /\ w.stack = SubSeq(v.stack, 1, ev.keep) \o ev.pushed THEN {} ELSE {"stack"})
    \cup (IF w.bc = ApplyDelta(v.bc, ev.cw, ev.cd) THEN {} ELSE {"cache"})
    \cup (IF w.ret = ev.ret THEN {} ELSE {"returned"})
    \cup (IF ExcMatch(w.exc, ev.exc) THEN {} ELSE {"exc"})
    \cup (IF w.obs.plug = ev.plug THEN {} ELSE {"plugins"})
    \cup (IF ~ev.flc \/ w.frames = <<>> \/ Flags(w) = FnOf(ev.fl) THEN {} ELSE {"flags"})
    \cup (IF ~ev.sdelta THEN {} ELSE {"strkeys"})
    \cup (IF ev.k # "op" \/ ev.h.adopt \/ w.obs.alloc = ev.alloc THEN {} ELSE {"alloc"})
    \cup (IF StackBounded(w) /\ ItemBounded(w) /\ ev.hwi <= w.cfg.maxItems /\ ev.hws <= w.cfg.maxItemSize THEN {} ELSE {"limits"})
    \cup (IF PcInRange(w) /\ DepthBounded(w) /\ LoopBounded(w) /\ (w.frames = <<>> \/ Len(w.frames) # ev.d \/ LogPcOk(w, ev))
          THEN {} ELSE {"bounds"})
    \cup (IF ReturnScoped(w) THEN {} ELSE {"retscope"})
    \cup (IF w.frames = <<>> \/ (TT(w).plug = ev.hplug /\ TT(w).contr = ev.hcontr) THEN {} ELSE {"config"})
    \cup (IF (ev.k = "end") = (w.status # "run") THEN {} ELSE {"end"})
    \cup (IF ev.k # "end" \/ ~w.cfg.auth \/ ev.verdict = Verdict(w) THEN {} ELSE {"verdict"})
    \cup (IF ev.k # "enter" \/ w.frames = <<>> \/ TT(w).code = ev.code THEN {} ELSE {"code"})
    \cup (IF ev.k # "enter" \/ w.frames = <<>> \/ TT(w).cnt = ev.cnt THEN {} ELSE {"callcount"})

SetStr(S) == LET RECURSIVE F(_) F(T) == IF T = {} THEN "" ELSE LET x == CHOOSE y \in T : TRUE IN x \o " " \o F(T \ {x}) IN F(S)

Proj(w) == [d |-> Len(w.frames), pc |-> IF w.frames = <<>> THEN -1 ELSE TT(w).pc,
            stack |-> w.stack, exc |-> w.exc, ret |-> w.ret, status |-> w.status,
            plug |-> w.obs.plug, last |-> w.obs.last]

TraceInit ==
    /\ tid \in 1..Len(TraceLog)
    /\ vm = InitVM(CfgOf(TraceLog[tid].cfg))
    /\ l = 1
    /\ verdict = "open"
    /\ nres = 0

\* Resync: after a disagreement at an instruction that started no sub-tape, the
\* implementation's logged outcome is adopted so that the REST of the trace is still
\* examined (a named action, counted; at most MaxResync per trace).  The disagreement
\* itself has already been reported.
MaxResync == 3
CanResync(v, ev) == /\ ev.k = "op" /\ StepKind(v) = "exec" /\ ev.d = Len(v.frames) /\ nres < MaxResync /\ LogPcOk(v, ev)
Resync(v, ev) ==
    LET a == Adopt(v, ev)
        b == [a EXCEPT !.ret = ev.ret, !.obs.plug = ev.plug, !.r = <<>>, !.p = <<>>, !.x = <<>>]
    IN IF ev.flc THEN [b EXCEPT !.fheap[TT(b).fid] = FnOf(ev.fl)] ELSE b

TraceNext ==
    /\ verdict = "open"
    /\ LET T == TraceLog[tid].ev IN
       IF l > Len(T)
       THEN /\ verdict' = IF vm.status # "run" THEN "ok" ELSE "short"
            /\ PrintT(ToJson([tid |-> tid, ok |-> vm.status # "run", step |-> l, final |-> TRUE,
                              failed |-> IF vm.status # "run" THEN "" ELSE "short",
                              id |-> TraceLog[tid].id, resyncs |-> nres]))
            /\ UNCHANGED <<vm, l, tid, nres>>
       ELSE LET ev == T[l]
                w == Expected(vm, ev)
                F == Failing(vm, w, ev)
            IN IF F = {}
               THEN /\ vm' = w /\ l' = l + 1 /\ UNCHANGED <<tid, verdict, nres>>
               ELSE /\ PrintT(ToJson([tid |-> tid, ok |-> FALSE, step |-> l, failed |-> SetStr(F), final |-> ~CanResync(vm, ev),
                                      id |-> TraceLog[tid].id, expected |-> Proj(w), resyncs |-> nres]))
                    /\ IF CanResync(vm, ev)
                       THEN /\ vm' = Resync(vm, ev) /\ l' = l + 1 /\ nres' = nres + 1 /\ UNCHANGED <<tid, verdict>>
                       ELSE /\ verdict' = "rejected" /\ UNCHANGED <<vm, l, tid, nres>>

TraceSpec == TraceInit /\ [][TraceNext]_<<vm, l, tid, verdict, nres>>

\* ---- invariants of TapeVM, evaluated on every state of every trace ------
InvStackBounded == StackBounded(vm)
InvItemBounded  == ItemBounded(vm)
InvPcInRange    == PcInRange(vm)
InvDepthBounded == DepthBounded(vm)
InvLoopBounded  == LoopBounded(vm)
InvConfigUniform == ConfigUniform(vm)
InvReturnScoped == ReturnScoped(vm)
=============================================================================
