"""C03 - multisig passes only with m valid signatures from m different listed keys."""
import random, sys
from ..par import SafePool
from ..common import Report, REPO
from .. import scncheck
from ..gen.progs import push, op, b1
from ..ref.opsem import message
from .c02 import sign, _pk

INV = ['TrueIffQuorum', 'FewerNeverPass', 'KeysUsedOnce', 'TypeOK']
FIELDS = {f'sigfield{i}': b'field-%d;' % i for i in range(1, 9)}
# the flag classes are concretised with a single-bit allowed-flags operand 1 << bit: permitted flag = that bit, non-permitted
# flag = the next bit (all 8 bits in MC, a random one per recorded scenario); signatures are made with the reference signer
# over the reference message, independently of the VM's own GET_MESSAGE / SIGN


def _impl():
    if REPO not in sys.path:
        sys.path.insert(0, REPO)
    import tapescript.functions as F
    import tapescript.tools as T
    return F, T


def seed_of(k: int) -> bytes:
    return bytes([k]) * 32


def sig_bytes(s: dict, bit: int = 0) -> bytes:
    seed = seed_of(s['signer'])
    if s['cls'] == 'f0':
        return sign(seed, message(FIELDS, 0))
    if s['cls'] == 'perm':
        f = 1 << bit
        return sign(seed, message(FIELDS, f)) + bytes([f])
    if s['cls'] == 'nonperm':
        f = 1 << ((bit + 1) % 8)
        return sign(seed, message(FIELDS, f)) + bytes([f])
    return sign(seed, message(FIELDS, 0))[:63]


def run_case(k: dict, verify_form: bool = False, bit: int = 0):
    F, _ = _impl()
    # the instruction takes keys first (top of stack first), then signatures
    script = b''.join(push(sig_bytes(s, bit)) for s in reversed(k['sigs'])) + b''.join(push(_pk(seed_of(x))) for x in reversed(k['keys']))
    script += op('CHECK_MULTISIG_VERIFY' if verify_form else 'CHECK_MULTISIG', b1(1 << bit), b1(k['m']), b1(k['n']))
    try:
        _, stack, _ = F.run_script(script, dict(FIELDS))
    except BaseException as e:
        if isinstance(e, (KeyboardInterrupt, SystemExit)):
            raise
        return ('error' if not verify_form else 'error-or-false'), type(e).__name__
    if verify_form:
        return ('true' if len(stack) == 0 else 'leftover'), None
    if len(stack) != 1:
        return 'leftover', None
    top = stack.list()[-1]
    return ('true' if top == b'\xff' else 'false' if top == b'\x00' else 'other'), None


def run_mc(k):
    flagged = any(s['cls'] in ('perm', 'nonperm') for s in k['sigs'])
    got = d = None
    for bit in (range(8) if flagged else (0,)):
        got, d = run_case(k, bit=bit)
        if got != k['expect']:
            return got, f'{d}; allowed flags x{1 << bit:02x}'
        g2, _ = run_case(k, verify_form=True, bit=bit)      # the _VERIFY form must agree: passes iff true
        if (g2 == 'true') != (got == 'true'):
            return f'verify-form:{g2}', f'{d}; allowed flags x{1 << bit:02x}'
    return got, d


def record_random(args):
    seed, count = args
    F, T = _impl()
    out = []
    for j in range(count):
        r = random.Random(f'{seed}/{j}')
        n = r.choice([1, 2, 3, 4, 5, 5, 8, 20])
        m = r.randrange(0, min(n, 6) + 1)
        keys = r.sample(range(1, n + 1), n)
        sigs = []
        for _ in range(m):
            c = r.random()
            signer = r.choice(keys) if c < 0.85 else 9
            sigs.append({'signer': signer, 'cls': r.choice(['f0'] * 5 + ['perm'] * 3 + ['nonperm', 'bad'])})
        if r.random() < 0.5 and m:      # an honest quorum, possibly spoiled afterwards
            signers = r.sample(keys, m)
            sigs = [{'signer': s, 'cls': r.choice(['f0', 'perm'])} for s in signers]
            if r.random() < 0.3:
                sigs[r.randrange(m)] = dict(sigs[r.randrange(m)])
        k = {'n': n, 'm': m, 'keys': keys, 'sigs': sigs, 'tid': 0}
        got, _ = run_case(k, bit=r.randrange(8))
        if r.random() < 0.2 and all(s['cls'] == 'f0' for s in sigs) and m:
            # the builders: make_multisig_lock + joined make_single_sig_witness outputs
            lock = T.make_multisig_lock([_pk(seed_of(x)) for x in keys], m)
            wit = b''.join(bytes(T.make_single_sig_witness(seed_of(s['signer']), dict(FIELDS)).bytes) for s in sigs)
            ok = F.run_auth_scripts([wit, bytes(lock.bytes)], dict(FIELDS))
            # builder lock pushes keys in list order: tried in reverse; signatures in witness order reversed
            kb = {'n': n, 'm': m, 'keys': list(reversed(keys)), 'sigs': list(reversed(sigs)), 'tid': 0,
                  'got': 'true' if ok else 'false-or-error'}
            g2, _ = run_case({**kb})
            kb['got'] = g2 if (g2 == 'true') == ok else f'builder-disagrees:{ok}'
            out.append(kb)
        out.append({**k, 'got': got})
        if j % 50 == 0:
            # distinct keys are a precondition the builder enforces: the same key given as bytes and as a VerifyKey
            # object is one key (a lock listing it twice would let one holder fill two quorum slots)
            from nacl.signing import VerifyKey
            a, b_ = _pk(seed_of(1)), _pk(seed_of(2))
            for keys_, q in (([a, VerifyKey(a)], 2), ([a, b_, VerifyKey(a)], 3), ([VerifyKey(a), a], 2), ([a, a], 2), ([b_, a, a, b_], 3)):
                try:
                    T.make_multisig_lock(keys_, q)
                    refused = False
                except ValueError:
                    refused = True
                # judged as a 1-key scenario with quorum q: never a quorum
                out.append({'n': 1, 'm': 0, 'keys': [1], 'sigs': [], 'tid': 0, 'got': 'true' if refused else 'builder-accepted-duplicate-key'})
            # a list that repeats a key is accepted when the quorum fits the unique keys: a quorum of different
            # holders must still unlock it (judged as the scenario over the de-duplicated key list)
            for keys_i, q, signers in (([1, 1, 2], 2, [1, 2]), ([1, 1, 2], 2, [2, 1]), ([1, 2, 3, 2], 3, [1, 2, 3]),
                                       ([1, 2, 3, 2], 3, [3, 1, 2]), ([1, 2, 2], 1, [1]), ([1, 2, 2], 1, [2]), ([2, 1, 1], 2, [1, 2])):
                lock = T.make_multisig_lock([_pk(seed_of(x)) for x in keys_i], q)
                wit = b''.join(bytes(T.make_single_sig_witness(seed_of(s), dict(FIELDS)).bytes) for s in signers)
                ok = F.run_auth_scripts([wit, bytes(lock.bytes)], dict(FIELDS))
                uniq = list(dict.fromkeys(keys_i))
                out.append({'n': len(uniq), 'm': q, 'keys': list(reversed(uniq)), 'tid': 0,
                            'sigs': [{'signer': s, 'cls': 'f0'} for s in reversed(signers)], 'got': 'true' if ok else 'false'})
    return out


def main(tier: str, seed: int) -> int:
    rep = Report('C03', tier, seed)
    rep.rule = ('MC (Multisig.tla: the greedy matcher as a state machine, one action per chosen signature and per signature/key comparison): every scenario '
                'with n <= N distinct keys (N = 3 quick, 5 thorough = the property\'s full bound, 57 M states; 3 key orders), m <= n, every sequence of m signatures over {each listed signer, an '
                'outsider} x {no flag, permitted flag, non-permitted flag} + a malformed one; invariants TrueIffQuorum, '
                'FewerNeverPass, KeysUsedOnce at every state; every scenario (for N = 5: every scenario with m <= 3 and a deterministic 1/61 sample of the rest, 174 k) concretised with real keys and signatures (reference signer over the reference message, all eight sigfields, every single-bit allowed operand) and run '
                'through OP_CHECK_MULTISIG and OP_CHECK_MULTISIG_VERIFY (true / false / error compared). traces: n up to 20, m up '
                'to 6, random signer multisets incl. duplicates and flag variants, and make_multisig_lock + joined '
                'make_single_sig_witness outputs through run_auth_scripts, judged by TLC running the same state machine.')
    rep.assumptions = ['listed keys are distinct (precondition of the property)', 'ideal signatures (see C02)']
    quick = tier == 'quick'
    scncheck.mc(rep, 'Multisig', 'mc', INV, run_mc, consts={'MaxN': 3 if quick else 5}, workers=16, heap='8g' if quick else '14g', timeout=3000 if quick else 7000)
    import multiprocessing as mp
    n = 10000 if quick else 60000
    with SafePool(14) as pool:
        cases = [c for ch in pool.map(record_random, [(seed * 37 + i, n // 28) for i in range(28)]) for c in ch]
    scncheck.judge(rep, 'Multisig', INV, cases, 'random multisig scenarios', consts={'MaxN': 0})
    return rep.finish()


def replay(path: str) -> int:
    import json
    obj = json.load(open(path))
    if obj.get('kind') == 'replay':
        got, d = run_case(obj['case'])
        print(got, d, 'expected', obj['case']['expect'])
        return 0 if got == obj['case']['expect'] else 1
    return 2
