"""Shared machinery of the VM-based property checks (C01, C06-C09, C20):
exhaustive TLC families + replay (spec -> code) and recorded traces of
generated runs validated by TLC (code -> spec), with per-property clause sets."""
from __future__ import annotations
import importlib, json, multiprocessing as mp, os, sys, time
from .par import SafePool
from . import tlc, vmmc, vmtrace
from .common import Report, REPO

INTERPRETER_FAILURES = {'RecursionError', 'MemoryError', 'SystemError', 'OverflowError_alloc'}
NPROC = max(2, min(14, (os.cpu_count() or 4) - 2))

_rec = None


def _recorder():
    global _rec
    if _rec is None:
        if REPO not in sys.path:
            sys.path.insert(0, REPO)
        from .observe import Recorder
        _rec = Recorder()
    return _rec


def _record_one(job):
    """job = (generator 'module:function', seed, kwargs) -> trace record"""
    gen, seed, kw = job
    modname, fn = gen.split(':')
    mod = importlib.import_module(modname)
    try:
        run_kw = getattr(mod, fn)(seed, **kw)
    except Exception as e:
        # a generator that calls the library's builders: a builder raising is not an execution to validate here
        # (the builders' own properties judge it); counted, never silent
        from .scncheck import raised_in_repo
        if not raised_in_repo(e):
            raise
        return {'genfail': f'{gen}/{seed}: {type(e).__name__}: {e}'[:300]}
    meta = run_kw.pop('meta', None)
    import signal

    def _alarm(signum, frame):
        from .observe import HarnessAbort
        r = _recorder()
        r.truncated = r.aborted = True
        raise HarnessAbort('wall-clock budget of one execution exceeded')
    old = signal.signal(signal.SIGALRM, _alarm)
    signal.setitimer(signal.ITIMER_REAL, 60)
    try:
        t = _recorder().run(ident=f'{gen}/{seed}', **run_kw)
    finally:
        signal.setitimer(signal.ITIMER_REAL, 0)
        signal.signal(signal.SIGALRM, old)
    t['meta'] = meta
    t['final'] = {'ret0_changed': _recorder().ret0_changed}
    return t


GENFAILS: list = []


def record(jobs: list, procs: int = NPROC) -> list:
    if len(jobs) < 40:
        out = [_record_one(j) for j in jobs]
    else:
        with SafePool(procs) as pool:
            out = pool.map(_record_one, jobs, chunksize=max(1, len(jobs) // (procs * 8)))
    GENFAILS.extend(t['genfail'] for t in out if 'genfail' in t)
    return [t for t in out if 'genfail' not in t]


def _replay_chunk(args):
    recs, opts = args
    r = _recorder()
    out = []
    import signal

    class _ReplayTimeout(BaseException):
        pass

    def _alarm(signum, frame):
        raise _ReplayTimeout()
    old = signal.signal(signal.SIGALRM, _alarm)
    try:
        for rec in recs:
            signal.setitimer(signal.ITIMER_REAL, 20)
            try:
                out.append(vmmc.replay(rec, r, **opts))
            except _ReplayTimeout:
                # (a behaviour of these families takes milliseconds; TLC explored it to the end)
                try:
                    r.uninstall()
                except Exception:
                    pass
                out.append(['the implementation did not terminate within 20 s on a behaviour the specification ends after '
                            f"{len(rec.get('hist', []))} instructions"])
            finally:
                signal.setitimer(signal.ITIMER_REAL, 0)
    finally:
        signal.signal(signal.SIGALRM, old)
    return out


def replay_all(records: list, procs: int = NPROC, **opts) -> list:
    if len(records) < 200:
        return _replay_chunk((records, opts))
    n = procs * 4
    chunks = [records[i::n] for i in range(n)]
    with SafePool(procs) as pool:
        res = pool.map(_replay_chunk, [(c, opts) for c in chunks])
    out = [None] * len(records)
    for ci, r in enumerate(res):
        for j, d in enumerate(r):
            out[ci + j * n] = d
    return out


# ------------------------------------------------------------------------- classification
def clause_violates(prop: str, failed: set, ev: dict | None, expected: dict | None) -> bool:
    """Does a rejected step falsify property `prop`?  (DESIGN section 4.6)"""
    logged = ev.get('exc', '') if ev else ''
    exp = (expected or {}).get('exc', 'none')
    if prop == 'C06' or prop == 'C20':
        return True
    if prop == 'C01':
        return bool(failed & {'depth', 'pc', 'returned', 'verdict', 'end', 'exc', 'code', 'callcount', 'short'})
    if prop == 'C07':
        if failed & {'limits', 'bounds', 'alloc', 'short', 'callcount'}:
            return True
        if 'exc' in failed:
            if logged in INTERPRETER_FAILURES:
                return True
            if exp == 'ScriptExecutionError' and logged != 'ScriptExecutionError':
                return True
        return False
    if prop == 'C08':
        return 'strkeys' in failed
    if prop == 'C09':
        return bool(failed & {'config', 'flags', 'plugins'})
    return True


def known_signature(prop: str, failed: set, ev: dict | None, trace: dict) -> str | None:
    """Name of the listed finding this rejection is an instance of, if any."""
    logged = ev.get('exc', '') if ev else ''
    if prop in ('C07', 'C06') and logged == 'RecursionError' and 'exc' in failed:
        return 'F4-recursion-depth'
    return None


def check_traces(rep: Report, traces: list, label: str, shards: int = 12):
    """TLC-validate recorded traces; account verdicts on the report."""
    if GENFAILS:
        rep.extra['builder_calls_that_raised_in_generators'] = {'count': len(GENFAILS), 'first': GENFAILS[0]}
    if not traces:
        return
    verdicts, results = vmtrace.validate(traces, shards=shards)
    for r in results:
        rep.add_tlc(r, f'trace:{label}')
    for i, t in enumerate(traces):
        v = verdicts[i]
        nontrivial = len(t['ev']) > 2
        rep.case(t['id'], nontrivial)
        fails = [f for f in v['failures']
                 if not (t['outcome'].get('truncated') and f['failed'].strip() == 'short')]
        if not fails:
            rep.traces += 1
            if t['outcome'].get('truncated'):
                # a long (but bounded) execution cut at the event budget: the validated prefix counts
                rep.extra['truncated_prefixes'] = rep.extra.get('truncated_prefixes', 0) + 1
            continue
        rep.extra['resyncs'] = rep.extra.get('resyncs', 0) + sum(1 for f in fails if not f.get('final'))
        for f in fails:
            step = f['step']
            ev = t['ev'][step - 1] if step <= len(t['ev']) else None
            failed = set(f['failed'].split())
            if 'exc' in failed and (f.get('expected') or {}).get('exc') in ('PRIMMISS', 'BADHINT') and ev and ev.get('op') == 47:
                # RANDOM: the only "primitive" is the byte string the implementation obtained from token_bytes; if the
                # specification wants random bytes and none were drawn, the implementation did not allocate where it
                # must (or refused a size it must accept): a disagreement in the alloc clause, not a harness gap
                failed = (failed - {'exc'}) | {'alloc', 'exc'}
            elif 'exc' in failed and (f.get('expected') or {}).get('exc') in ('PRIMMISS', 'BADHINT'):
                raise tlc.MachineryError(f"reference primitive missing for trace {t['id']} step {step} op "
                                         f"{ev.get('op') if ev else None}")
            name = known_signature(rep.prop, failed, ev, t)
            if name:
                rep.known_finding(name, f"trace {t['id']} step {step}: logged {ev.get('exc') if ev else ''}")
                continue
            what = (f"trace {t['id']} rejected at step {step} ({label}): clauses {sorted(failed)}; "
                    f"instruction op={ev.get('op') if ev else None} kind={ev.get('k') if ev else None}; "
                    f"spec expected {json.dumps(f.get('expected'))[:300]}; "
                    f"implementation logged {json.dumps({k: ev[k] for k in ('d', 'pc', 'keep', 'pushed', 'exc', 'ret', 'plug') if ev and k in ev})[:300]}")
            if clause_violates(rep.prop, failed, ev, f.get('expected')):
                rep.violation(what, {'kind': 'trace', 'id': t['id'], 'cfg': t['cfg'], 'step': step,
                                     'failed': sorted(failed)})
            else:
                rep.note('outside this property: ' + what[:300])
                rep.extra['unrelated_rejections'] = rep.extra.get('unrelated_rejections', 0) + 1


def mc_family(rep: Report, family: str, depth: int, *, replay_filter=None, timeout=3000, **replay_opts):
    """Model check one family with TLC, then replay every behaviour through the code."""
    res = vmmc.run_family(family, depth, timeout=timeout)
    rep.add_tlc(res, f'mc:{family}/{depth}')
    if res.violated:
        rep.violation(f'TLC: {res.violated} violated in family {family}/{depth} (specification level)',
                      {'kind': 'mc', 'family': family, 'depth': depth, 'trace': res.errtrace[:4000]})
        return res
    diffs = replay_all(res.records, **replay_opts)
    nbad = 0
    for rec, d in zip(res.records, diffs):
        key = json.dumps([rec['scripts'], rec['lim']])
        rep.case(key, len(rec['hist']) > 0)
        if not d:
            rep.traces += 1
            continue
        if replay_filter is not None:
            d2 = [x for x in d if replay_filter(x)]
            if not d2:
                rep.note(f'outside this property: {family} {d[0][:200]}')
                continue
            d = d2
        nbad += 1
        rep.violation(f"replay of TLC behaviour ({family}/{depth}) not reproduced by the implementation: "
                      f"scripts {[bytes(s).hex() for s in rec['scripts']]} limits {rec['lim']}: {'; '.join(d)[:500]}",
                      {'kind': 'replay', 'family': family, 'record': rec})
    if len(rep.samples) < 6 and res.records:
        r0 = res.records[len(res.records) // 2]
        rep.sample({'family': family, 'scripts': [bytes(s).hex() for s in r0['scripts']], 'limits': r0['lim'],
                    'spec_outcome': {'status': r0['status'], 'exc': r0['exc'], 'verdict': r0['verdict'],
                                     'stack': [bytes(x).hex() for x in r0['stack']]},
                    'executed': r0['hist'][:12]})
    rep.extra.setdefault('families', {})[f'{family}/{depth}'] = {
        'behaviours': len(res.records), 'states': res.distinct, 'replay_mismatches': nbad}
    return res


def replay_one(path: str, prop: str) -> int:
    """./check Cxx --replay PATH : re-execute one recorded violation."""
    with open(path) as f:
        obj = json.load(f)
    rep = Report(prop, 'quick', 0)
    if obj.get('kind') == 'replay':
        d = vmmc.replay(obj['record'], _recorder())
        print('disagreements:', d)
        return 1 if d else 0
    if obj.get('kind') == 'trace':
        gen, seed = obj['id'].rsplit('/', 1)
        t = _record_one((gen, int(seed), obj.get('genkw', {})))
        verdicts, _ = vmtrace.validate([t], shards=1)
        print(json.dumps(verdicts[0]['failures'])[:2000])
        return 0 if verdicts[0]['ok'] else 1
    print('nothing to replay for', obj.get('kind'))
    return 2
