"""C06 - every instruction behaves as the language specification says."""
from ..common import Report
from .. import vmcheck

GEN = 'vf.gen.runs:make_run'


def main(tier: str, seed: int) -> int:
    rep = Report('C06', tier, seed)
    rep.rule = ('MC: every program of TapeVMMC family ctl (all compositions of IF / IF_ELSE both arms / TRY / EXCEPT / '
                'LOOP / DEF+CALL / EVAL up to the depth bound around RETURN, a raising op, DEF, CALL and marker pushes) '
                'explored exhaustively by TLC and replayed through run_script comparing executed-instruction sequence, '
                'final stack, cache, returned flag and exception; family alu: every hint-free data instruction (integer arithmetic incl. '
                'DIV_INT / MOD_INT tape divisors, comparison, bitwise, stack permutation, concat / split, copy, size, logic) on every '
                'pair of 12 boundary items (empty, 0, 1, 127, 128, 255, padded and two-byte forms) with every boundary operand, '
                '12,384 programs, replayed; traces: seeded generator over the full opcode table '
                '(92 ops + NOP codes, nesting <= 4, boundary-biased operands, random caches / limits / flags / plugins / '
                'contracts), one event per instruction / sub-tape entry / exit, validated step by step by TLC against '
                'TapeVM.Step; the same for <witness, lock> pairs made by every builder family of tapescript.tools (29 kinds, honest and '
                'perturbed): the builders\' actual bytecode is executed instruction by instruction against the specification. distinct = distinct programs+configs; non-trivial = at least one instruction executed.')
    rep.assumptions = ['reference primitives (hashlib, pure-Python Ed25519, struct float32, Python int) are correct',
                       'error message text is opaque; exception classes are compared',
                       'OP_CHECK_TRANSFER runs on the reference contract defined in TapeVM.tla (RefVP / RefVT / RefVC / RefAgg)']
    depth = 2 if tier == 'quick' else 3
    vmcheck.mc_family(rep, 'ctl', depth)
    vmcheck.mc_family(rep, 'alu', 0)
    if tier != 'quick':
        vmcheck.mc_family(rep, 'cache', 2)
    n = 5000 if tier == 'quick' else 40000
    base = seed * 1_000_003
    batch = 10000
    for off in range(0, n, batch):
        jobs = [(GEN, base + off + i, {}) for i in range(min(batch, n - off))]
        traces = vmcheck.record(jobs)
        if off == 0:
            t = traces[len(traces) // 3]
            rep.sample({'trace_id': t['id'], 'scripts': [bytes(s).hex() for s in t['cfg']['scripts']],
                        'events': len(t['ev']), 'first_events': [{k: e[k] for k in ('k', 'op', 'd', 'pc', 'keep', 'exc')}
                                                                 for e in t['ev'][:6]]})
        vmcheck.check_traces(rep, traces, 'full-opcode generator')
    m = 500 if tier == 'quick' else 5000
    for gen in ('vf.gen.runs:make_cachey', 'vf.gen.runs:make_hungry', 'vf.gen.runs:make_auth_adv', 'vf.gen.runs:make_forked',
                'vf.gen.builders:make_builder_run'):
        traces = vmcheck.record([(gen, base + 10 ** 6 + i, {}) for i in range(m)])
        vmcheck.check_traces(rep, traces, gen.split(':')[1])
    return rep.finish()


def replay(path: str) -> int:
    return vmcheck.replay_one(path, 'C06')
