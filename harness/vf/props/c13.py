"""C13 - signature and commitment lock builders: exactly the intended holder can unlock."""
import random, sys
from ..par import SafePool
from ..common import Report, REPO
from .. import scncheck
from ..gen.progs import push, op
from ..ref import ed25519 as E

INV = ['AcceptIffIntended', 'OtherKeyRejected', 'SurrogateBound', 'MsAcceptIffIntended', 'MsFewerHoldersRejected']
FLAG = {'f0': '00', 'perm': '01', 'nonperm': '02'}
ALLOWED = '01'


def _impl():
    if REPO not in sys.path:
        sys.path.insert(0, REPO)
    import tapescript.functions as F
    import tapescript.tools as T
    return F, T


def _keyobj(seed):
    from nacl.signing import SigningKey
    return SigningKey(seed)


def scripts_for(r=None):
    mk = lambda m, v: push(bytes([m])) + op('POP0') + (op('TRUE') if v else op('FALSE'))
    return {'1': mk(1, True), '2': mk(2, True), '3': mk(3, False)}


def first_push(b: bytes) -> bytes:
    if b[0] == 3:
        return b[2:2 + b[1]]
    if b[0] == 4:
        n = int.from_bytes(b[1:3], 'big')
        return b[3:3 + n]
    if b[0] == 2:
        return b[1:2]
    raise ValueError('not a push')


def one(F, T, k, seeds, sf, scr, bit=0, hashsize=None, keyobj=False):
    """bit: which single-bit allowed-flags byte concretises the flag classes: permitted flag = 1 << bit (it excludes
    sigfield{bit+1}), non-permitted flag = the next bit; the covered field that is perturbed is sigfield{(bit+1)%8+1}"""
    lock_seed, other_seed = seeds
    ALLOWED = f'{1 << bit:02x}'
    FLAG = {'f0': '00', 'perm': ALLOWED, 'nonperm': f'{1 << ((bit + 1) % 8):02x}'}
    excluded, covered = f'sigfield{bit + 1}', f'sigfield{(bit + 1) % 8 + 1}'
    wseed = lock_seed if k['wkey'] == 1 else other_seed
    sseed = lock_seed if k['sursig'] == 1 else other_seed
    pk = E.public_key(lock_seed)
    S = {i: T.Script.from_bytes(b) for i, b in scr.items()}
    fh = FLAG[k['fl']]
    lk = k['lock']
    if lk == 'ss':
        lock = T.make_single_sig_lock(pk, ALLOWED)
    elif lk == 'ss2':
        lock = T.make_single_sig_lock2(pk, ALLOWED)
    elif lk == 'ms11':
        lock = T.make_multisig_lock([pk], 1, ALLOWED)
    elif lk == 'sh':
        lock = T.make_scripthash_lock(S['1'], hashsize) if hashsize else T.make_scripthash_lock(S['1'])
    elif lk == 'gr':
        lock = T.make_graftroot_lock(pk, ALLOWED)
    else:
        lock = T.make_graftap_lock(pk, ALLOWED)
    w = k['wit']
    if w == 'ss':
        wit = bytes(T.make_single_sig_witness(wseed, dict(sf), fh).bytes)
    elif w == 'ss2':
        wit = bytes(T.make_single_sig_witness2(wseed, dict(sf), fh).bytes)
    elif w == 'sh':
        wit = bytes(T.make_scripthash_witness(S[k['script']]).bytes)
    elif w == 'grkey':
        wit = bytes(T.make_graftroot_witness_keyspend(wseed, dict(sf), fh).bytes)
    elif w == 'grsur':
        honest = bytes(T.make_graftroot_witness_surrogate(_keyobj(sseed) if keyobj else sseed, S['1']).bytes)
        sig = first_push(honest)
        wit = push(sig) + push(scr[k['script']]) + op('TRUE')
        if k['script'] == '1' and wit != honest:
            return 'builder-output-differs-from-documented-layout'
    elif w == 'gakey':
        wit = bytes(T.make_graftap_witness_keyspend(wseed, dict(sf), fh).bytes)
    else:
        honest = bytes(T.make_graftap_witness_scriptspend(sseed, S['1']).bytes)
        sig = first_push(honest)
        committed = bytes(T._make_graftap_committed_script(pk).bytes)
        wit = push(sig) + push(scr[k['script']]) + push(committed) + push(E.public_key(wseed))
        if k['script'] == '1' and k['sursig'] == k['wkey'] == 1 and wit != honest:
            return 'builder-output-differs-from-documented-layout'
    cache = dict(sf)
    if k['fields'] == 'covered':
        cache[covered] = cache[covered] + b'!'
    elif k['fields'] == 'excluded':
        cache[excluded] = cache[excluded] + b'!'
    return 'true' if F.run_auth_scripts([wit, bytes(lock.bytes)], cache) else 'false'


MS_SEEDS = {1: b'\x51' * 32, 2: b'\x52' * 32, 3: b'\x53' * 32, 4: b'\x54' * 32, 5: b'\x55' * 32, 9: b'\x59' * 32}


def one_ms(F, T, k, seeds, sf, bit=0):
    """m-of-n multisig lock against the concatenation of single-signature witnesses (bottom first)."""
    ALLOWED = f'{1 << bit:02x}'
    FLAG = {'f0': '00', 'perm': ALLOWED, 'nonperm': f'{1 << ((bit + 1) % 8):02x}'}
    excluded, covered = f'sigfield{bit + 1}', f'sigfield{(bit + 1) % 8 + 1}'
    pks = [E.public_key(seeds[i]) for i in range(1, k['n'] + 1)]
    lock = T.make_multisig_lock(pks, k['m'], ALLOWED)
    wit = b''.join(bytes(T.make_single_sig_witness(seeds[sg['who']], dict(sf), FLAG[sg['fl']]).bytes) for sg in k['sigs'])
    cache = dict(sf)
    if k['fields'] == 'covered':
        cache[covered] = cache[covered] + b'!'
    elif k['fields'] == 'excluded':
        cache[excluded] = cache[excluded] + b'!'
    scripts = [wit, bytes(lock.bytes)] if wit else [bytes(lock.bytes)]
    return 'true' if F.run_auth_scripts(scripts, cache) else 'false'


MS_BITS = (0, 4, 7)       # quick tier; all 8 in thorough
MC_SF = {f'sigfield{i}': b'field %d' % i for i in range(1, 9)}


def run_mc(k):
    """every flag-dependent case is concretised with each of the 8 single-bit allowed-flags bytes"""
    F, T = _impl()
    flagged = (k['lock'] == 'ms' and any(sg['fl'] != 'f0' for sg in k['sigs'])) or \
              (k['lock'] != 'ms' and k['fl'] != 'f0' and k['wit'] not in ('sh', 'grsur', 'gascr')) or k['fields'] != 'same'
    got = None
    for bit in ((MS_BITS if k['lock'] == 'ms' else range(8)) if flagged else (0,)):
        if k['lock'] == 'ms':
            got = one_ms(F, T, k, MS_SEEDS, MC_SF, bit)
        else:
            got = one(F, T, k, (b'\x41' * 32, b'\x42' * 32), MC_SF, scripts_for(), bit)
        if got != k['expect']:
            return got, f'allowed flags x{1 << bit:02x}'
    return got, None


def record_random(args):
    seed, count = args
    F, T = _impl()
    out = []
    for j in range(count):
        r = random.Random(f'{seed}/{j}')
        # keys whose hex begins with every byte value; random sigfield subsets (fields 1 and 2 always present)
        s1 = bytes([r.randrange(256)]) + r.randbytes(31)
        s2 = bytes([r.randrange(256)]) + r.randbytes(31)
        bit = r.randrange(8)
        # the excluded and the covered field of this bit are always present; the others at random
        sf = {f'sigfield{bit + 1}': r.randbytes(r.choice([1, 8, 64])), f'sigfield{(bit + 1) % 8 + 1}': r.randbytes(r.choice([1, 8, 64]))}
        for i in range(1, 9):
            if f'sigfield{i}' not in sf and r.random() < 0.4:
                sf[f'sigfield{i}'] = r.randbytes(r.choice([0, 3, 32]))
        body = r.choice([b'', op('TRUE') + op('VERIFY'), push(b'ab') + op('SIZE') + op('POP0'),
                         # committed / surrogate scripts whose size sits on a push-size boundary (witnesses push the script)
                         push(r.randbytes(r.choice([244, 245, 246, 247, 248, 249, 250]))) + op('POP0')])
        mk = lambda m, v: push(bytes([m])) + op('POP0') + body + (op('TRUE') if v else op('FALSE'))
        scr = {'1': mk(1, True), '2': mk(2, True), '3': mk(3, False)}
        if r.random() < 0.3:
            n = r.randint(1, 5)
            m = r.randint(1, n)
            signers = list(range(1, n + 1))
            r.shuffle(signers)
            mode = r.random()
            if mode < 0.4:          # an honest quorum, sometimes over different flag variants
                sigs = [{'who': w, 'fl': r.choice(['f0', 'perm'])} for w in signers[:m]]
            elif mode < 0.7:        # one holder signing more than once with different encodings, outsiders, repeats
                sigs = [{'who': r.choice(signers[:2] + [9]), 'fl': r.choice(['f0', 'perm'])} for _ in range(m)]
            else:
                sigs = [{'who': r.choice(signers + [9]), 'fl': r.choice(['f0', 'perm', 'perm', 'nonperm'])}
                        for _ in range(r.choice([m, m, m - 1, m + 1]))]
            k = {'lock': 'ms', 'm': m, 'n': n, 'sigs': sigs, 'fields': r.choice(['same', 'same', 'excluded', 'covered'])}
            seeds = {i: bytes([r.randrange(256)]) + r.randbytes(31) for i in (1, 2, 3, 4, 5, 9)}
            try:
                got = one_ms(F, T, k, seeds, sf, bit)
            except BaseException as e:
                if isinstance(e, (KeyboardInterrupt, SystemExit)):
                    raise
                got = f'raised-{type(e).__name__}'
            out.append({**k, 'got': got})
            continue
        k = {'lock': r.choice(['ss', 'ss2', 'ms11', 'sh', 'gr', 'ga']), 'wit': None, 'wkey': r.choice([1, 1, 2]),
             'fields': r.choice(['same', 'same', 'covered', 'excluded']), 'fl': r.choice(['f0', 'f0', 'perm', 'nonperm']),
             'script': r.choice(['1', '1', '2', '3']), 'sursig': r.choice([1, 1, 2])}
        match = {'ss': ['ss'], 'ss2': ['ss2'], 'ms11': ['ss'], 'sh': ['sh'], 'gr': ['grkey', 'grsur'], 'ga': ['gakey', 'gascr']}
        k['wit'] = r.choice(match[k['lock']]) if r.random() < 0.7 else r.choice(['ss', 'ss2', 'sh', 'grkey', 'grsur', 'gakey', 'gascr'])
        try:
            got = one(F, T, k, (s1, s2), sf, scr, bit, hashsize=r.choice([None, None, 16, 20, 32, 64]), keyobj=r.random() < 0.3)
        except BaseException as e:
            if isinstance(e, (KeyboardInterrupt, SystemExit)):
                raise
            got = f'raised-{type(e).__name__}'
        out.append({**k, 'got': got})
    return out


def main(tier: str, seed: int) -> int:
    rep = Report('C13', tier, seed)
    rep.rule = ('MC (Locks.tla: every lock as its script executes on symbolic items with ideal signatures, vs the declarative '
                'Intended): 6 locks (single sig in both layouts, 1-of-1 multisig, script hash, graftroot, graftap) x 7 witness '
                'builders (all cross-pairings) x {lock key, other key} x {fields same, covered field changed, excluded field '
                'changed} x {no flag, permitted, non-permitted flag} x {committed / surrogate script, another script, a false '
                'script} x {surrogate signed by lock key, by another key} = 4,536 cases; laws AcceptIffIntended, OtherKeyRejected, '
                'SurrogateBound; family ms: make_multisig_lock m-of-n for (m,n) in {1/1, 1/2, 2/2, 2/3, 3/3} against every sequence of m-1..m+1 '
                'single-signature witnesses by {listed keys, outsider} x {no flag, permitted, non-permitted}, x sigfield perturbation; the lock as the '
                'greedy matcher vs the declarative quorum (MsAcceptIffIntended, MsFewerHoldersRejected: one holder signing twice with '
                'different encodings is no quorum); each case is built with the real builders (surrogate / graftap witnesses re-assembled from the '
                'builder\'s signature so that script and signer can be varied; the honest assembly must equal the builder\'s bytes) '
                'and run through run_auth_scripts. traces: random seeds (first byte sweeping all values), sigfield subsets, script '
                'bodies and perturbations, judged by TLC.')
    rep.assumptions = ['ideal signatures / hashes', 'flag classes are concretised with single-bit allowed-flags bytes (all 8 in MC, a random one per trace): permitted = that bit (excluding its sigfield), non-permitted = the next bit']
    quick = tier == 'quick'
    global MS_BITS
    MS_BITS = (0, 4, 7) if quick else tuple(range(8))
    consts = {'MaxWit': 3 if quick else 4}
    scncheck.mc(rep, 'Locks', 'mc', INV, run_mc, workers=4, consts=consts)
    scncheck.mc(rep, 'Locks', 'ms', INV, run_mc, workers=8, consts=consts)
    import multiprocessing as mp
    n = 10000 if quick else 60000
    with SafePool(14) as pool:
        cases = [c for ch in pool.map(record_random, [(seed * 53 + i, n // 28) for i in range(28)]) for c in ch]
    scncheck.judge(rep, 'Locks', [], cases, 'random lock scenarios', consts=consts)
    return rep.finish()


def replay(path: str) -> int:
    import json
    obj = json.load(open(path))
    if obj.get('kind') == 'replay':
        got, _ = run_mc(obj['case'])
        print(got, 'expected', obj['case']['expect'])
        return 0 if got == obj['case']['expect'] else 1
    return 2
