"""C20 - unassigned opcodes are soft-fork-safe no-ops."""
import json, multiprocessing as mp
from ..par import SafePool
from ..common import Report
from .. import vmcheck, vmmc, tlc, softfork

SF_CFG = '''SPECIFICATION Spec
CONSTANTS
  Bound = %d
  Emit = TRUE
INVARIANT Simulation
INVARIANT ForkImpliesOld
INVARIANT DivergeOnlyByRaise
INVARIANT EmitDone
CHECK_DEADLOCK FALSE
'''


def _replay_sf(recs):
    r = vmcheck._recorder()
    out = []
    for rec in recs:
        scripts = [bytes(s) for s in rec['scripts']]
        kw = dict(auth=True, max_items=rec['lim'][0], max_item_size=rec['lim'][1], callstack_limit=rec['lim'][2])
        d = []
        for tag, forks in (('U', {}), ('F', {rec['code']: rec['kind']})):
            t = r.run(scripts, {}, forks=forks, **kw)
            if bool(t['outcome']['verdict']) != bool(rec['verdict' + tag]):
                d.append(f"verdict{tag}: spec {rec['verdict' + tag]} impl {t['outcome']['verdict']}")
            exp = '' if rec['exc' + tag] == 'none' else rec['exc' + tag]
            if exp != t['ev'][-1]['exc']:
                d.append(f"exception{tag}: spec {exp or None} impl {t['ev'][-1]['exc'] or None}")
            if [list(h) for h in r.hist] != [list(h) for h in rec['hist' + tag]]:
                d.append(f'executed-instruction sequence {tag} differs')
        out.append(d)
    return out


def mc_softfork(rep: Report, bound: int):
    res = tlc.run_tlc('SoftFork', SF_CFG % bound, workers=16, timeout=3000, heap='12g')
    rep.add_tlc(res, f'mc:SoftFork/{bound}')
    if res.violated:
        rep.violation(f'TLC: {res.violated} violated in SoftFork/{bound}', {'kind': 'mc', 'trace': res.errtrace[:4000]})
        return
    n = vmcheck.NPROC * 4
    chunks = [res.records[i::n] for i in range(n)]
    with SafePool(vmcheck.NPROC) as pool:
        outs = pool.map(_replay_sf, chunks)
    bad = 0
    for ci, out in enumerate(outs):
        for j, d in enumerate(out):
            rec = res.records[ci + j * n]
            rep.case(json.dumps([rec['scripts'], rec['code'], rec['kind']]), len(rec['histF']) > 0)
            if not d:
                rep.traces += 2
                continue
            bad += 1
            rep.violation(f"soft-fork behaviour not reproduced: scripts {[bytes(s).hex() for s in rec['scripts']]} code "
                          f"{rec['code']} fork {rec['kind']}: {'; '.join(d)[:400]}", {'kind': 'replay-sf', 'record': rec})
    if res.records:
        r0 = res.records[len(res.records) // 3]
        rep.sample({'family': 'SoftFork', 'scripts': [bytes(s).hex() for s in r0['scripts']], 'code': r0['code'], 'fork': r0['kind'],
                    'verdict_forked': r0['verdictF'], 'verdict_unforked': r0['verdictU'], 'try_wrapped': r0['tryWrapped']})
    rep.extra.setdefault('families', {})[f'SoftFork/{bound}'] = {'behaviours': len(res.records), 'states': res.distinct,
                                                                 'replay_mismatches': bad}


def same_bytes_clause(rep: Report):
    """compile / decompile: NOPn on the old VM, name and aliases on the upgraded VM, identical bytes.
    Expected bytes come from Asm.tla (AsmMC family operands: one-byte-operand nodes at NOP codes)."""
    from .. import asmcheck
    res = tlc.run_tlc('AsmMC', asmcheck.CFG % 'operands', workers=4, timeout=1200, heap='4g')
    rep.add_tlc(res, 'mc:AsmMC/operands (NOP encodings)')
    ts = asmcheck._impl()
    recs = [r for r in res.records if isinstance(r, dict) and r.get('k') == 'asm' and r['toks'][0].startswith('NOP')]
    seen = set()
    for r in recs:
        code, count = r['bytes']
        if (code, count) in seen:
            continue
        seen.add((code, count))
        rep.case(f'samebytes/{code}/{count}')
        expect = bytes(r['bytes'])
        problems = []
        signed = count - 256 if count >= 128 else count
        for src in (f'NOP{code} d{signed}', f'nop{code} x{count:02x}'):
            st, val = asmcheck.with_timeout(lambda: ts.compile_script(src), 5)
            if st != 'ok' or val != expect:
                problems.append(f'old VM: {src!r} -> {val.hex() if st == "ok" else val}, expected {expect.hex()}')
        st, lines = asmcheck.with_timeout(lambda: ts.decompile_script(expect), 5)
        if st != 'ok' or list(lines) != list(r['listing']):
            problems.append(f'old VM: decompile {expect.hex()} -> {lines}, expected {r["listing"]}')
        with softfork.installed({code: 'never'}, {code: ['FKA', 'OP_FKB']}):
            for src in (f'OP_FORK{code} d{count}', f'op_fork{code} x{count:02x}', f'FKA d{count}', f'fka d{count}', f'OP_FKB d{count}'):
                st, val = asmcheck.with_timeout(lambda: ts.compile_script(src), 5)
                if st != 'ok' or val != expect:
                    problems.append(f'upgraded VM: {src!r} -> {val.hex() if st == "ok" else val}, expected {expect.hex()}')
            st, lines = asmcheck.with_timeout(lambda: ts.decompile_script(expect), 5)
            if st != 'ok' or list(lines) != [f'OP_FORK{code} d{count}']:
                problems.append(f'upgraded VM: decompile {expect.hex()} -> {lines}')
            else:
                st, back = asmcheck.with_timeout(lambda: ts.compile_script('\n'.join(lines)), 5)
                if st != 'ok' or back != expect:
                    problems.append(f'upgraded VM: compile(decompile({expect.hex()})) -> {back}')
        if problems:
            rep.violation(f'soft-fork op at code {code}, count byte {count}: ' + '; '.join(problems)[:600],
                          {'kind': 'samebytes', 'code': code, 'count': count})
        else:
            rep.traces += 1
    rep.extra['same_bytes_cases'] = len(seen)
    # the op in every syntactic context (after one- and two-argument pushes, size-prefixed operands, inside every kind
    # of block, hoisted condition, macro and comptime bodies): NOPn names on the old VM, the fork's name / aliases on
    # the upgraded VM, identical bytes (AsmMC family nopctx)
    res = tlc.run_tlc('AsmMC', asmcheck.CFG % 'nopctx', workers=4, timeout=1200, heap='4g')
    rep.add_tlc(res, 'mc:AsmMC/nopctx')
    n_ctx = 0
    for r in res.records:
        if not (isinstance(r, dict) and r.get('k') == 'asm' and r['ok']):
            continue
        n_ctx += 1
        expect = bytes(r['bytes'])
        codes = sorted({int(t[3:]) for t in r['toks'] if t.startswith('NOP')})
        rep.case('nopctx/' + ' '.join(r['toks']))
        problems = []
        src = ' '.join(r['toks'])
        st, val = asmcheck.with_timeout(lambda: ts.compile_script(src), 5)
        if st != 'ok' or val != expect:
            problems.append(f'old VM: {src!r} -> {val.hex() if st == "ok" else val}, expected {expect.hex()}')
        with softfork.installed({c: 'never' for c in codes}, {c: [f'FKA{c}', f'OP_FKB{c}'] for c in codes}):
            for style in range(4):
                name = lambda c: [f'OP_FORK{c}', f'op_fork{c}', f'FKA{c}', f'OP_FKB{c}'][style]
                # the generated compiler handler of a fork reads an unsigned decimal count
                toks2 = []
                for i, t in enumerate(r['toks']):
                    if t.startswith('NOP'):
                        toks2.append(name(int(t[3:])))
                    elif i and r['toks'][i - 1].startswith('NOP') and t.startswith('d-'):
                        toks2.append(f'd{256 + int(t[1:])}')
                    else:
                        toks2.append(t)
                src2 = ' '.join(toks2)
                st, val = asmcheck.with_timeout(lambda: ts.compile_script(src2), 5)
                if st != 'ok' or val != expect:
                    problems.append(f'upgraded VM: {src2!r} -> {val.hex() if st == "ok" else val}, expected {expect.hex()}')
        if problems:
            rep.violation(f'soft-fork op in context: ' + '; '.join(problems)[:700], {'kind': 'nopctx', 'toks': r['toks']})
        else:
            rep.traces += 1
    rep.extra['same_bytes_context_cases'] = n_ctx


def rejected_install_clause(rep: Report):
    """An install that is refused (bad name, non-callable, occupied or out-of-range code) changes nothing: the code is
    still unassigned and still behaves, compiles and decompiles as NOPn - also when a valid install follows later."""
    from .. import asmcheck
    ts = asmcheck._impl()
    import tapescript.functions as F
    import tapescript.parsing as P
    import tapescript.tools as T
    tables = [F.opcodes, F.nopcodes, F.opcodes_inverse, F.nopcodes_inverse, F.opcode_aliases, P.additional_opcodes]
    n = 0
    for code in (92, 93, 177, 200, 254, 255):
        saved = [dict(t) for t in tables]
        try:
            for label, args in (('name without OP_', (code, 'FORKBAD', softfork.make_op('never'))),
                                ('non-callable', (code, 'OP_FORKX', 'not callable')),
                                ('occupied code', (1, 'OP_FORKY', softfork.make_op('never'))),
                                ('code 256', (256, 'OP_FORKZ', softfork.make_op('never')))):
                n += 1
                rep.case(f'rejected-install/{code}/{label}')
                try:
                    T.add_soft_fork(*args)
                    refused = False
                except (ValueError, TypeError):
                    refused = True
                problems = []
                if not refused:
                    problems.append('the install was not refused')
                st, val = asmcheck.with_timeout(lambda: ts.compile_script(f'NOP{code} d1 OP_TRUE'), 5)
                if st != 'ok' or val != bytes([code, 1, 1]):
                    problems.append(f'NOP{code} d1 OP_TRUE compiles to {val.hex() if st == "ok" else val}')
                st, val = asmcheck.with_timeout(lambda: ts.decompile_script(bytes([code, 1, 1])), 5)
                if st != 'ok' or list(val) != [f'NOP{code} d1', 'OP_TRUE']:
                    problems.append(f'decompile gives {val}')
                try:
                    ok = F.run_auth_scripts([bytes([2, 7, code, 1, 1])])
                except BaseException as e:
                    if isinstance(e, (KeyboardInterrupt, SystemExit)):
                        raise
                    ok = f'{type(e).__name__}: {e}'
                if ok is not True:
                    problems.append(f'push 7; NOP{code} 1; TRUE authorizes: {ok}')
                if problems:
                    rep.violation(f'after a refused install ({label}) at code {code}: ' + '; '.join(problems)[:500],
                                  {'kind': 'rejected-install', 'code': code, 'label': label})
                else:
                    rep.traces += 1
        finally:
            for t, sv in zip(tables, saved):
                t.clear()
                t.update(sv)
    rep.extra['rejected_install_cases'] = n


def main(tier: str, seed: int) -> int:
    rep = Report('C20', tier, seed)
    rep.rule = ('MC: TapeVMMC family nop - every unassigned code 92..255 x every count byte 0..255 x stack depths 0..3 with '
                'action property NopExact (signed count, error if negative or larger than the stack, no other effect), all '
                '167,936 behaviours replayed; SoftFork.tla - product of an unforked and a forked VM over all programs of '
                '<= N atoms (fork op bare, inside IF / DEF+CALL / EVAL / LOOP / TRY, with counts 0,1,2,128,255) x 5 fork '
                'predicates x 3 codes x 5 witnesses, invariants Simulation, ForkImpliesOld, DivergeOnlyByRaise; every '
                'behaviour replayed in the real VM with and without tools.add_soft_fork. traces: generated programs using '
                'unassigned codes with forks installed at random free codes, validated by TLC (TapeVM.OpFork). compile / decompile: '
                'for NOP codes 92, 200, 255 x count bytes 0,1,127,128,255 the bytes Asm.tla assigns must be produced by NOPn '
                '(d and x spellings) on the old VM and by the op name, lower case, bare and both aliases on the upgraded VM, and '
                'decompile / recompile must round-trip on both; and the op in every syntactic context (AsmMC family nopctx: after one- and '
                'two-argument pushes and every operand kind, inside every block kind, hoisted condition, macro and comptime '
                'bodies) compiles to the bytes Asm.tla assigns, by NOPn on the old VM and by name / aliases on the upgraded VM.')
    rep.assumptions = ['the forked op is of the documented shape: reads the count byte, removes count items, may raise']
    quick = tier == 'quick'
    if quick:
        vmcheck.mc_family(rep, 'nop', 0)
    else:
        vmcheck.mc_family(rep, 'nop', 0)
    mc_softfork(rep, 2 if quick else 3)
    same_bytes_clause(rep)
    rejected_install_clause(rep)
    base = seed * 1_000_003
    n = 1500 if quick else 30000
    for off in range(0, n, 10000):
        traces = vmcheck.record([('vf.gen.runs:make_forked', base + off + i, {}) for i in range(min(10000, n - off))])
        vmcheck.check_traces(rep, traces, 'make_forked')
    return rep.finish()


def replay(path: str) -> int:
    return vmcheck.replay_one(path, 'C20')
