-------------------------------- MODULE Isa --------------------------------
(***************************************************************************)
(* The instruction set: opcode numbers, names and operand formats, the    *)
(* byte-level decoder (length of the instruction starting at an offset)   *)
(* and encoder helpers.  Shared by the VM model-checking configurations   *)
(* (instruction boundaries), the assembler / disassembler specification   *)
(* and the program families TLC enumerates.                                *)
(***************************************************************************)
EXTENDS Bytes

Names == <<"FALSE", "TRUE", "PUSH0", "PUSH1", "PUSH2", "GET_MESSAGE", "POP0", "POP1", "SIZE", "WRITE_CACHE",
  "READ_CACHE", "READ_CACHE_SIZE", "READ_CACHE_STACK", "READ_CACHE_STACK_SIZE", "ADD_INTS", "SUBTRACT_INTS",
  "MULT_INTS", "DIV_INT", "DIV_INTS", "MOD_INT", "MOD_INTS", "ADD_FLOATS", "SUBTRACT_FLOATS", "DIV_FLOAT",
  "DIV_FLOATS", "MOD_FLOAT", "MOD_FLOATS", "ADD_POINTS", "COPY", "DUP", "SHA256", "SHAKE256", "VERIFY", "EQUAL",
  "EQUAL_VERIFY", "CHECK_SIG", "CHECK_SIG_VERIFY", "CHECK_TIMESTAMP", "CHECK_TIMESTAMP_VERIFY", "CHECK_EPOCH",
  "CHECK_EPOCH_VERIFY", "DEF", "CALL", "IF", "IF_ELSE", "EVAL", "NOT", "RANDOM", "RETURN", "SET_FLAG",
  "UNSET_FLAG", "DEPTH", "SWAP", "SWAP2", "REVERSE", "CONCAT", "SPLIT", "CONCAT_STR", "SPLIT_STR",
  "CHECK_TRANSFER", "MERKLEVAL", "TRY_EXCEPT", "LESS", "LESS_OR_EQUAL", "GET_VALUE", "FLOAT_LESS",
  "FLOAT_LESS_OR_EQUAL", "INT_TO_FLOAT", "FLOAT_TO_INT", "LOOP", "CHECK_MULTISIG", "CHECK_MULTISIG_VERIFY",
  "SIGN", "SIGN_STACK", "CHECK_SIG_STACK", "DERIVE_SCALAR", "CLAMP_SCALAR", "ADD_SCALARS", "SUBTRACT_SCALARS",
  "DERIVE_POINT", "SUBTRACT_POINTS", "MAKE_ADAPTER_SIG_PUBLIC", "MAKE_ADAPTER_SIG_PRIVATE",
  "CHECK_ADAPTER_SIG", "DECRYPT_ADAPTER_SIG", "INVOKE", "XOR", "OR", "AND", "CHECK_TEMPLATE",
  "CHECK_TEMPLATE_VERIFY", "TAPROOT">>

NOps == Len(Names)          \* 92; codes NOps..255 are unassigned (NOP<code>)
Code(name) == (CHOOSE i \in 1..NOps : Names[i] = name) - 1

\* operand formats
\*  "-"    none                      "b1" one byte         "b2" two bytes      "b3" three bytes
\*  "f4"   four bytes (float)        "h32" 32 bytes
\*  "s1"   size byte + that many     "s1c" size byte + data + count byte
\*  "s2"   2-byte size + that many   "s2s2" two such blocks     "hs2" handle byte + 2-byte size + block
Fmt(op) ==
    IF op >= NOps THEN "b1"
    ELSE CASE op \in {2, 5, 7, 14, 15, 16, 21, 22, 27, 28, 31, 35, 36, 42, 54, 72, 76, 77, 78, 80, 89, 90, 91} -> "b1"
           [] op = 52 -> "b2"
           [] op \in {70, 71} -> "b3"
           [] op \in {23, 25} -> "f4"
           [] op = 60 -> "h32"
           [] op \in {3, 10, 11, 17, 19, 49, 50, 64} -> "s1"
           [] op = 9 -> "s1c"
           [] op \in {4, 43, 69} -> "s2"
           [] op \in {44, 61} -> "s2s2"
           [] op = 41 -> "hs2"
           [] OTHER -> "-"

\* Length in bytes (opcode included) of the instruction that starts at 0-based
\* offset pc of code, or -1 if the code ends before the instruction is complete.
InstrLen(code, pc) ==
    LET n == Len(code)
        op == code[pc + 1]
        f == Fmt(op)
        Fits(k) == IF pc + k <= n THEN k ELSE -1
        B(i) == code[pc + 1 + i]                       \* i-th byte after the opcode (1-based)
    IN CASE f = "-"   -> 1
         [] f = "b1"  -> Fits(2)
         [] f = "b2"  -> Fits(3)
         [] f = "b3"  -> Fits(4)
         [] f = "f4"  -> Fits(5)
         [] f = "h32" -> Fits(33)
         [] f = "s1"  -> IF pc + 2 > n THEN -1 ELSE Fits(2 + B(1))
         [] f = "s1c" -> IF pc + 2 > n THEN -1 ELSE Fits(3 + B(1))
         [] f = "s2"  -> IF pc + 3 > n THEN -1 ELSE Fits(3 + B(1) * 256 + B(2))
         [] f = "hs2" -> IF pc + 4 > n THEN -1 ELSE Fits(4 + B(2) * 256 + B(3))
         [] f = "s2s2" -> IF pc + 3 > n THEN -1
                          ELSE LET a == B(1) * 256 + B(2) IN
                               IF pc + 5 + a > n THEN -1
                               ELSE Fits(5 + a + code[pc + 4 + a] * 256 + code[pc + 5 + a])

\* 0-based offsets at which top-level instructions of `code` start (decoding stops
\* at the first truncated instruction)
RECURSIVE BoundsFrom(_, _)
BoundsFrom(code, pc) ==
    IF pc >= Len(code) THEN {}
    ELSE LET k == InstrLen(code, pc) IN
         IF k < 0 THEN {pc} ELSE {pc} \cup BoundsFrom(code, pc + k)
Boundaries(code) == BoundsFrom(code, 0)

\* ---- encoder helpers -------------------------------------------------------
U16B(n) == <<n \div 256, n % 256>>
IPush(b) == IF Len(b) = 1 THEN <<2>> \o b
            ELSE IF Len(b) < 256 THEN <<3, Len(b)>> \o b
            ELSE <<4>> \o U16B(Len(b)) \o b
IBlock(op, body) == <<op>> \o U16B(Len(body)) \o body
IBlock2(op, a, b) == <<op>> \o U16B(Len(a)) \o a \o U16B(Len(b)) \o b
IDef(h, body) == <<41, h>> \o U16B(Len(body)) \o body
=============================================================================
