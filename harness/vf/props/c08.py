"""C08 - scripts can read but never alter interpreter-owned cache values."""
from ..common import Report
from .. import vmcheck


def main(tier: str, seed: int) -> int:
    rep = Report('C08', tier, seed)
    rep.rule = ('MC: TapeVMMC family cache (all programs of <= N instructions over the cache-writing alphabet - '
                'WRITE_CACHE / READ_CACHE / sizes / stack-keyed variants / GET_VALUE with keys spelling sigfield1, '
                'timestamp, returned, padded and empty variants, POP0/POP1, TRY error capture, GET_MESSAGE, RETURN) with the '
                'protected names present under string keys; action property CfgFrozen (the embedder\'s string-keyed '
                'cache is part of the immutable configuration: no transition writes it); every behaviour replayed and '
                'the string-keyed cache compared by value and type. traces: generator biased to cache writers (all 11 '
                'writer flags on, every crypto writer, INVOKE, TRY) on caches with embedder values of every type; per '
                'event the harness compares all string keys except the interpreter\'s own \'returned\' (clause strkeys).')
    rep.assumptions = ['no plugin or contract that itself writes the cache is installed (precondition of the property)']
    quick = tier == 'quick'
    vmcheck.mc_family(rep, 'cache', 2 if quick else 3)
    base = seed * 1_000_003
    n = 2500 if quick else 40000
    for off in range(0, n, 10000):
        traces = vmcheck.record([('vf.gen.runs:make_cachey', base + off + i, {}) for i in range(min(10000, n - off))])
        if off == 0:
            t = traces[3]
            rep.sample({'script': bytes(t['cfg']['scripts'][0]).hex()[:240], 'string_keys': [bytes(e['k']).decode() for e in t['cfg']['sc']],
                        'events': len(t['ev'])})
        vmcheck.check_traces(rep, traces, 'make_cachey')
    # initial caches that contain the interpreter's own key: finding F12
    traces = vmcheck.record([('vf.gen.runs:make_reserved_key', base + i, {}) for i in range(60 if quick else 600)])
    for t in traces:
        rep.case(t['id'])
        if t['final']['ret0_changed']:
            rep.known_finding('F12-reserved-key-returned', f"{t['id']}: embedder value under 'returned' overwritten / deleted")
    return rep.finish()


def replay(path: str) -> int:
    return vmcheck.replay_one(path, 'C08')
