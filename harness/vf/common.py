"""Shared driver plumbing: evidence files, violation / known-finding reporting."""
from __future__ import annotations
import hashlib, json, os, sys, time

ROOT = os.path.dirname(os.path.dirname(os.path.dirname(os.path.abspath(__file__))))
EVID = os.environ.get('VERIF_EVIDENCE_DIR') or os.path.join(ROOT, 'evidence')     # (redirected when a seeded defect is being run)
REPLAYS = os.path.join(ROOT, 'replays')
FINDINGS = os.path.join(ROOT, 'known_findings.json')
REPO = os.environ.get('VERIF_REPO', '/repo')


def hexs(b: bytes) -> str:
    return bytes(b).hex()


def blist(b: bytes) -> list:
    return list(bytes(b))


def load_findings() -> list:
    if not os.path.exists(FINDINGS):
        return []
    with open(FINDINGS) as f:
        return json.load(f).get('findings', [])


class Report:
    """Collects what one check run did; writes evidence; prints verdict lines."""

    def __init__(self, prop: str, tier: str, seed: int, level: str = 'model_checking'):
        self.prop, self.tier, self.seed, self.level = prop, tier, seed, level
        self.t0 = time.time()
        self.states = 0
        self.transitions = 0
        self.traces = 0          # implementation executions validated against the spec
        self.evaluations = 0
        self.distinct = set()
        self.samples = []
        self.violations = []     # (signature, replay path)
        self.known = {}          # finding name -> count
        self.notes = []
        self.extra = {}
        self.assumptions = []
        self.exhaustive = False
        self.checker_cmds = []
        self.rule = ''
        self.findings = [f for f in load_findings() if f.get('property') == prop]

    # --- accounting -------------------------------------------------------
    def add_tlc(self, res, label: str = ''):
        self.states += res.distinct
        self.transitions += res.generated
        self.extra.setdefault('tlc_runs', []).append(
            {'label': label, 'distinct': res.distinct, 'generated': res.generated,
             'depth': res.depth, 'wall_s': round(res.wall_s, 2)})
        if res.cmd and len(self.checker_cmds) < 6:
            self.checker_cmds.append(res.cmd.replace(ROOT, '/verif'))

    def case(self, key, nontrivial: bool = True):
        self.evaluations += 1
        if nontrivial:
            if not isinstance(key, (str, bytes, int)):
                key = json.dumps(key, sort_keys=True, default=str)
            if isinstance(key, str) and len(key) > 64:
                key = hashlib.sha1(key.encode()).hexdigest()
            self.distinct.add(key)

    def sample(self, obj, limit: int = 8):
        if len(self.samples) < limit:
            self.samples.append(obj)

    def note(self, text: str):
        if len(self.notes) < 50:
            self.notes.append(text)

    # --- verdicts -----------------------------------------------------------
    def known_finding(self, name: str, what: str = ''):
        """An observed failure that matches a listed finding signature."""
        self.known[name] = self.known.get(name, 0) + 1
        self.extra.setdefault('known_finding_examples', {}).setdefault(name, what)

    def is_listed(self, name: str) -> bool:
        return any(f.get('name') == name and f.get('kind') == 'finding' for f in self.findings)

    def violation(self, what: str, replay_obj: dict):
        os.makedirs(REPLAYS, exist_ok=True)
        body = json.dumps(replay_obj, sort_keys=True, default=str)
        h = hashlib.sha1(body.encode()).hexdigest()[:12]
        path = os.path.join(REPLAYS, f'{self.prop}-{h}.json')
        if len(self.violations) < 25:
            with open(path, 'w') as f:
                json.dump({'property': self.prop, 'what': what, **replay_obj}, f,
                          indent=1, sort_keys=True, default=str)
            print(f'VIOLATION property={self.prop} replay={path}', flush=True)
            print(f'  {what[:600]}', flush=True)
        self.violations.append((what, path))

    def finish(self) -> int:
        for f in self.findings:
            if f.get('kind') == 'finding' and self.known.get(f['name']):
                print(f"KNOWN-FINDING: property={self.prop} {f['name']}: {f.get('text', '')} "
                      f"(seen {self.known[f['name']]}x)", flush=True)
        unlisted = [n for n in self.known if not self.is_listed(n)]
        for n in unlisted:       # a finding signature that is not (or no longer) listed
            self.violation(f'unlisted finding {n}: '
                           f"{self.extra.get('known_finding_examples', {}).get(n, '')}",
                           {'finding': n})
        cov = {
            'states': max(self.states, 0),
            'transitions': max(self.transitions, 0),
            'traces_validated_against_impl': self.traces,
            'evaluations': self.evaluations,
            'distinct_nontrivial': len(self.distinct),
            'rule': self.rule,
            'samples': self.samples or ['(none)'],
            'exhaustive': bool(self.exhaustive),
            'checker_cmd': ' ; '.join(self.checker_cmds)[:4000],
            'known_findings_seen': self.known,
            'notes': self.notes,
            **self.extra,
        }
        ev = {
            'property_id': self.prop, 'tier': self.tier, 'seed': self.seed,
            'level': self.level, 'coverage': cov, 'assumptions': self.assumptions,
            'wall_s': round(time.time() - self.t0, 2), 'violations': len(self.violations),
        }
        os.makedirs(EVID, exist_ok=True)
        with open(os.path.join(EVID, f'{self.prop}.json'), 'w') as f:
            json.dump(ev, f, indent=1, default=str)
        print(f'{self.prop} {self.tier}: states={self.states} transitions={self.transitions} '
              f'impl_traces={self.traces} evaluations={self.evaluations} '
              f'distinct={len(self.distinct)} violations={len(self.violations)} '
              f'known={self.known} wall={ev["wall_s"]}s', flush=True)
        return 1 if self.violations else 0
